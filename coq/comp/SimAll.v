(* Assembly of the simulation cases. *)
From Coq Require Import ZArith NArith List Bool Lia.
From KV.comp Require Import Ast0 Sem0 Instr0 Comp0 VM0 Known0 InstrLemmas CompLemmas SemLemmas SimBase SimExpr SimExpr2 SimCmp SimQ SimIf SimLoop.
Import ListNotations.
Open Scope N_scope.
Ltac Zify.zify_post_hook ::= Z.to_euclidean_division_equations.

Section SimA.
  Variable pool : list pentry.

  Lemma pool_find_nth : forall z l i k, pool_find (PInt z) l i = Some k ->
    nth_error l (N.to_nat (k - i)) = Some (PInt z).
  Proof.
    induction l; intros i k H; cbn [pool_find] in H; [discriminate|].
    destruct (pentry_eqb a (PInt z)) eqn:E.
    - inversion H; subst. rewrite N.sub_diag. cbn. destruct a; cbn in E; try discriminate.
      apply Z.eqb_eq in E. subst. reflexivity.
    - assert (i + 1 <= k).
      { clear - H. revert H. generalize (i + 1). induction l; intros; cbn in H; [discriminate|].
        destruct (pentry_eqb a (PInt z)); [inversion H; lia|]. apply IHl in H. lia. }
      apply IHl in H. replace (N.to_nat (k - i)) with (S (N.to_nat (k - (i + 1)))) by lia. exact H.
  Qed.


  Lemma int_case : forall z, P pool (EInt z).
  Proof.
    intros z r st out st' c H W _.
    destruct (i64_literal z) eqn:IL; [|cbn [comp] in H; rewrite IL in H; discriminate].
    destruct (small_int z) eqn:SI.
    + eapply (lit_case pool (EInt z) (fun reg => if (z =? 0)%Z then ISet0 reg
                            else if (z =? 1)%Z then ISet1 reg
                            else if (0 <=? z)%Z then ISetU8 reg (Z.to_N z)
                            else ISetNegU8 reg (Z.to_N (- z))) (VInt z)); eauto.
      * intros. cbn [comp]. rewrite IL, SI. reflexivity.
      * intros. destruct (z =? 0)%Z eqn:E0; [apply Z.eqb_eq in E0; subst; reflexivity|].
        destruct (z =? 1)%Z eqn:E1; [apply Z.eqb_eq in E1; subst; reflexivity|].
        destruct (0 <=? z)%Z eqn:E2; cbn [exec].
        -- apply Z.leb_le in E2. rewrite Z2N.id by assumption. reflexivity.
        -- apply Z.leb_gt in E2. rewrite Z2N.id by lia. rewrite Z.opp_involutive. reflexivity.
      * intros. destruct (z =? 0)%Z; [reflexivity|]. destruct (z =? 1)%Z; [reflexivity|].
        destruct (0 <=? z)%Z; reflexivity.
    + destruct (pool_find (PInt z) pool 0) as [idx|] eqn:PF;
        [|cbn [comp] in H; rewrite IL, SI, PF in H; cbn [negb] in H; apply bind_inv in H;
          destruct H as (? & ? & ? & ? & _ & H & _); discriminate H].
      eapply (lit_case pool (EInt z) (fun reg => ILoadInt reg idx) (VInt z)); eauto.
      * intros. cbn [comp]. rewrite IL, SI, PF. reflexivity.
      * intros. cbn [exec]. unfold const_int. apply pool_find_nth in PF. rewrite N.sub_0_r in PF.
        rewrite PF. reflexivity.
  Qed.

  Lemma leaf_chain : forall e, Q pool e -> is_cmp e = false ->
    wf_expr e = true -> esc e = false -> ChainP pool e.
  Proof. intros e HQ NC WF NE. apply chain_leaf; [assumption|]. apply Q_to_P; assumption. Qed.

  Lemma op_Q : forall e, (wf_expr e = true -> esc e = false /\ P pool e) -> Q pool e.
  Proof. intros e H WF. destruct (H WF) as (NE & HP). exact (P_to_Q pool e HP NE WF). Qed.

  Lemma sim_all : forall e,
    Q pool e /\ (wf_expr e = true -> esc e = false -> ChainP pool e).
  Proof.
    induction e using expr_ind2.
    - assert (X : P pool ENull).
      { intros r st out st' c H W _. eapply (lit_case pool ENull ISetNull VNull); eauto. }
      assert (XQ : Q pool ENull) by (apply P_to_Q; auto).
      split; [exact XQ|apply leaf_chain; auto].
    - assert (X : P pool (EBool b)).
      { intros r st out st' c H W _.
        eapply (lit_case pool (EBool b) (if b then ISetTrue else ISetFalse) (VBool b)); eauto.
        all: intros; destruct b; reflexivity. }
      assert (XQ : Q pool (EBool b)) by (apply P_to_Q; auto).
      split; [exact XQ|apply leaf_chain; auto].
    - assert (XQ : Q pool (EInt z)) by (apply P_to_Q; auto; apply int_case).
      split; [exact XQ|apply leaf_chain; auto].
    - assert (XQ : Q pool (EId x)) by (apply P_to_Q; auto; apply id_case).
      split; [exact XQ|apply leaf_chain; auto].
    - destruct IHe as (X & _).
      assert (XQ : Q pool (ENested e)) by (apply nestedQ; exact X).
      split; [exact XQ|apply leaf_chain; auto].
    - destruct IHe as (X & _).
      assert (XQ : Q pool (ENeg e)).
      { apply op_Q. intros WF. cbn [wf_expr] in WF. apply andb_prop in WF as [NE WFa]. apply negb_true_iff in NE.
        split; [exact NE|]. apply neg_case. apply Q_to_P; auto. }
      split; [exact XQ|apply leaf_chain; auto].
    - destruct IHe as (X & _).
      assert (XQ : Q pool (ENot e)).
      { apply op_Q. intros WF. cbn [wf_expr] in WF. apply andb_prop in WF as [NE WFa]. apply negb_true_iff in NE.
        split; [exact NE|]. apply not_case. apply Q_to_P; auto. }
      split; [exact XQ|apply leaf_chain; auto].
    - destruct IHe1 as (X1 & _). destruct IHe2 as (X2 & _).
      assert (XQ : Q pool (EArith o e1 e2)).
      { apply op_Q. intros WF. cbn [wf_expr] in WF. apply andb_prop in WF as [WF WFb]. apply andb_prop in WF as [WF WFa].
        apply andb_prop in WF as [NEa NEb]. apply negb_true_iff in NEa, NEb.
        split; [cbn; rewrite NEa, NEb; reflexivity|]. apply arith_case; apply Q_to_P; auto. }
      split; [exact XQ|apply leaf_chain; auto].
    - destruct IHe1 as (X1 & C1). destruct IHe2 as (X2 & C2).
      assert (XP : wf_expr (ECmp o e1 e2) = true -> P pool (ECmp o e1 e2)).
      { intros WF. cbn [wf_expr] in WF. apply andb_prop in WF as [WF WFb]. apply andb_prop in WF as [WF WFa].
        apply andb_prop in WF as [NEa NEb]. apply negb_true_iff in NEa, NEb.
        apply cmp_case; [apply Q_to_P; auto|apply C2; auto]. }
      split.
      + apply op_Q. intros WF. split; [|apply XP; exact WF].
        cbn [wf_expr] in WF. apply andb_prop in WF as [WF WFb]. apply andb_prop in WF as [WF WFa].
        apply andb_prop in WF as [NEa NEb]. apply negb_true_iff in NEa, NEb. cbn. rewrite NEa, NEb. reflexivity.
      + intros WF NE. cbn [wf_expr] in WF. apply andb_prop in WF as [WF WFb]. apply andb_prop in WF as [WF WFa].
        apply andb_prop in WF as [NEa NEb]. apply negb_true_iff in NEa, NEb.
        apply chain_node; [apply Q_to_P; auto|apply C2; auto].
    - destruct IHe1 as (X1 & _). destruct IHe2 as (X2 & _).
      assert (XQ : Q pool (ELogic o e1 e2)).
      { apply op_Q. intros WF. cbn [wf_expr] in WF. apply andb_prop in WF as [WF WFb]. apply andb_prop in WF as [WF WFa].
        apply andb_prop in WF as [NEa NEb]. apply negb_true_iff in NEa, NEb.
        split; [cbn; rewrite NEa, NEb; reflexivity|]. apply logic_case; apply Q_to_P; auto. }
      split; [exact XQ|apply leaf_chain; auto].
    - destruct IHe as (X & _).
      assert (XQ : Q pool (EAssign x e)).
      { apply op_Q. intros WF. cbn [wf_expr] in WF. apply andb_prop in WF as [NE WFa]. apply negb_true_iff in NE.
        split; [exact NE|]. apply assign_case. apply Q_to_P; auto. }
      split; [exact XQ|apply leaf_chain; auto].
    - destruct IHe as (X & _).
      assert (XQ : Q pool (EOpAssign o x e)).
      { apply op_Q. intros WF. cbn [wf_expr] in WF. apply andb_prop in WF as [NE WFa]. apply negb_true_iff in NE.
        split; [exact NE|]. apply opassign_case. apply Q_to_P; auto. }
      split; [exact XQ|apply leaf_chain; auto].
    - assert (XQ : Q pool (EBlock es)).
      { apply blockQ. induction es as [|e0 rest IHr]; [constructor|].
        inversion H; subst. constructor; [apply H2|apply IHr; assumption]. }
      split; [exact XQ|apply leaf_chain; auto].
    - assert (XQ : Q pool (EIf e1 e2 elifs els)).
      { apply ifQ.
        - apply IHe1.
        - apply IHe2.
        - clear - H. induction elifs as [|[c0 t0] rest IHr]; [constructor|].
          inversion H; subst. destruct H2 as (Hc & Ht). cbn [fst snd] in *.
          constructor; [split; [apply Hc|apply Ht]|apply IHr; assumption].
        - intros e0 E0. apply (H0 e0 E0). }
      split; [exact XQ|apply leaf_chain; auto].
    - destruct IHe1 as (X1 & _). destruct IHe2 as (X2 & _).
      assert (XQ : Q pool (EWhile e1 e2)) by (apply whileQ; assumption).
      split; [exact XQ|apply leaf_chain; auto].
    - destruct IHe1 as (X1 & _). destruct IHe2 as (X2 & _).
      assert (XQ : Q pool (EUntil e1 e2)) by (apply untilQ; assumption).
      split; [exact XQ|apply leaf_chain; auto].
    - destruct IHe as (X & _).
      assert (XQ : Q pool (ELoop e)) by (apply loopQ; assumption).
      split; [exact XQ|apply leaf_chain; auto].
    - assert (XQ : Q pool (EBreak v)).
      { apply breakQ. intros a E0. apply (H a E0). }
      split; [exact XQ|apply leaf_chain; auto].
    - split; [apply continueQ|apply leaf_chain; auto; apply continueQ].
  Qed.
End SimA.
