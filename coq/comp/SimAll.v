(* Assembly of the simulation cases. *)
From Coq Require Import ZArith NArith List Bool Lia.
From KV.comp Require Import Ast0 Sem0 Instr0 Comp0 VM0 Known0 InstrLemmas CompLemmas SimBase SimExpr SimExpr2 SimCmp.
Import ListNotations.
Open Scope N_scope.
Ltac Zify.zify_post_hook ::= Z.to_euclidean_division_equations.

Section SimA.
  Variable pool : list pentry.

  Lemma pool_find_nth : forall z l i k, pool_find (PInt z) l i = Some k ->
    nth_error l (N.to_nat (k - i)) = Some (PInt z).
  Proof.
    induction l; intros i k H; cbn [pool_find] in H; [discriminate|].
    destruct (pentry_eqb a (PInt z)) eqn:E.
    - inversion H; subst. rewrite N.sub_diag. cbn. destruct a; cbn in E; try discriminate.
      apply Z.eqb_eq in E. subst. reflexivity.
    - assert (i + 1 <= k).
      { clear - H. revert H. generalize (i + 1). induction l; intros; cbn in H; [discriminate|].
        destruct (pentry_eqb a (PInt z)); [inversion H; lia|]. apply IHl in H. lia. }
      apply IHl in H. replace (N.to_nat (k - i)) with (S (N.to_nat (k - (i + 1)))) by lia. exact H.
  Qed.


  Lemma int_case : forall z, P pool (EInt z).
  Proof.
    intros z r st out st' c H W _.
    destruct (i64_literal z) eqn:IL; [|cbn [comp] in H; rewrite IL in H; discriminate].
    destruct (small_int z) eqn:SI.
    + eapply (lit_case pool (EInt z) (fun reg => if (z =? 0)%Z then ISet0 reg
                            else if (z =? 1)%Z then ISet1 reg
                            else if (0 <=? z)%Z then ISetU8 reg (Z.to_N z)
                            else ISetNegU8 reg (Z.to_N (- z))) (VInt z)); eauto.
      * intros. cbn [comp]. rewrite IL, SI. reflexivity.
      * intros. destruct (z =? 0)%Z eqn:E0; [apply Z.eqb_eq in E0; subst; reflexivity|].
        destruct (z =? 1)%Z eqn:E1; [apply Z.eqb_eq in E1; subst; reflexivity|].
        destruct (0 <=? z)%Z eqn:E2; cbn [exec].
        -- apply Z.leb_le in E2. rewrite Z2N.id by assumption. reflexivity.
        -- apply Z.leb_gt in E2. rewrite Z2N.id by lia. rewrite Z.opp_involutive. reflexivity.
      * intros. destruct (z =? 0)%Z; [reflexivity|]. destruct (z =? 1)%Z; [reflexivity|].
        destruct (0 <=? z)%Z; reflexivity.
    + destruct (pool_find (PInt z) pool 0) as [idx|] eqn:PF;
        [|cbn [comp] in H; rewrite IL, SI, PF in H; cbn [negb] in H; apply bind_inv in H;
          destruct H as (? & ? & ? & ? & _ & H & _); discriminate H].
      eapply (lit_case pool (EInt z) (fun reg => ILoadInt reg idx) (VInt z)); eauto.
      * intros. cbn [comp]. rewrite IL, SI, PF. reflexivity.
      * intros. cbn [exec]. unfold const_int. apply pool_find_nth in PF. rewrite N.sub_0_r in PF.
        rewrite PF. reflexivity.
  Qed.

  Lemma sim_expr_chain : forall e, frag e = true -> P pool e /\ ChainP pool e.
  Proof.
    induction e using expr_ind2; intros Fr; try discriminate Fr; cbn [frag] in Fr;
      try (apply andb_prop in Fr as [Fa Fb]).
    - assert (X : P pool ENull).
      { intros r st out st' c H W _. eapply (lit_case pool ENull ISetNull VNull); eauto. }
      split; [exact X|apply chain_leaf; auto].
    - assert (X : P pool (EBool b)).
      { intros r st out st' c H W _.
        eapply (lit_case pool (EBool b) (if b then ISetTrue else ISetFalse) (VBool b)); eauto.
        all: intros; destruct b; reflexivity. }
      split; [exact X|apply chain_leaf; auto].
    - split; [apply int_case|apply chain_leaf; auto; apply int_case].
    - split; [apply id_case|apply chain_leaf; auto; apply id_case].
    - destruct (IHe Fr) as (X & _).
      split; [apply nested_case; exact X|apply chain_leaf; auto; apply nested_case; exact X].
    - destruct (IHe Fr) as (X & _).
      split; [apply neg_case; exact X|apply chain_leaf; auto; apply neg_case; exact X].
    - destruct (IHe Fr) as (X & _).
      split; [apply not_case; exact X|apply chain_leaf; auto; apply not_case; exact X].
    - destruct (IHe1 Fa) as (X1 & _). destruct (IHe2 Fb) as (X2 & _).
      split; [apply arith_case; assumption|apply chain_leaf; auto; apply arith_case; assumption].
    - destruct (IHe1 Fa) as (X1 & C1). destruct (IHe2 Fb) as (X2 & C2).
      split; [apply cmp_case; assumption|apply chain_node; assumption].
    - destruct (IHe1 Fa) as (X1 & _). destruct (IHe2 Fb) as (X2 & _).
      split; [apply logic_case; assumption|apply chain_leaf; auto; apply logic_case; assumption].
    - destruct (IHe Fr) as (X & _).
      split; [apply assign_case; exact X|apply chain_leaf; auto; apply assign_case; exact X].
    - destruct (IHe Fr) as (X & _).
      split; [apply opassign_case; exact X|apply chain_leaf; auto; apply opassign_case; exact X].
  Qed.

  Lemma sim_expr : forall e, frag e = true -> P pool e.
  Proof. intros e Fr. apply sim_expr_chain. assumption. Qed.
End SimA.
