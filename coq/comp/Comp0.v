(* Model of koto_bytecode::Compiler (crates/bytecode/src/compiler.rs, frame.rs) for Core-0.
   NO PROOFS here.  Same protocol as the Rust: ResultRegister None/Any/Fixed, Frame with
   local_registers (Assigned / Reserved / Allocated), temporary_base, temporary_count,
   temporaries_used_in_frame, loop stack (result register, start ip), absolute ip = bytes.len().

   Differences in representation (behaviour preserved, checked byte for byte by checks/c01_comp.py):
   - the byte vector is not patched in place: a forward jump is emitted once the code it jumps over
     has been compiled ([advance] reserves its bytes so that every ip is the Rust's bytes.len());
     the offset is ip(patch time) - (placeholder ip + 2) with the same u16 check
     (update_offset_placeholder).  `break` emits [IHole p]; compile_loop resolves the holes of its
     body at pop_loop_and_update_placeholders time.
   - Frame::register_stack only ever holds the temporaries temporary_base .. +temporary_count-1
     (push_register is the only push), so it is represented by temporary_count.
   - usize subtractions that cannot underflow in the Rust are checked (placeholder resolution). *)
From Coq Require Import ZArith NArith List Bool.
From KV.comp Require Import Ast0 Instr0.
Import ListNotations.
Open Scope N_scope.

Inductive lreg := LAssigned (x : ident) | LReserved (x : ident) | LAllocated.
Record loopinfo := mkLoop { l_result : option N; l_start : N }.
Record cst := mkSt {
  locals : list lreg;
  tbase : N;
  tcount : N;
  tused : N;
  loops : list loopinfo;
  ip : N
}.

Inductive rr := RNone | RAny | RFixed (r : N).
Record cout := mkOut { o_reg : option N; o_temp : bool }.
Definition out_none := mkOut None false.
Definition out_assigned r := mkOut (Some r) false.
Definition out_temp r := mkOut (Some r) true.

Inductive cerr := CompileError | CompilePanic | Unsupported.
Inductive res (A : Type) := OK (a : A) | Err (e : cerr).
Arguments OK {A} a.
Arguments Err {A} e.

(* state + writer *)
Definition M (A : Type) := cst -> res (A * cst * code).
Definition ret {A} (a : A) : M A := fun st => OK (a, st, []).
Definition fail {A} (e : cerr) : M A := fun _ => Err e.
Definition bind {A B} (m : M A) (f : A -> M B) : M B :=
  fun st => match m st with
            | OK (a, st1, c1) =>
              match f a st1 with
              | OK (b, st2, c2) => OK (b, st2, c1 ++ c2)
              | Err e => Err e
              end
            | Err e => Err e
            end.
Notation "'do' x <- m ; f" := (bind m (fun x => f)) (at level 200, x name, m at level 100, f at level 200).
Notation "'do' ' ( x , y ) <- m ; f" := (bind m (fun p => let '(x, y) := p in f))
  (at level 200, x name, y name, m at level 100, f at level 200).

Definition set_ip (st : cst) (n : N) : cst :=
  mkSt (locals st) (tbase st) (tcount st) (tused st) (loops st) n.
Definition set_locals (st : cst) (l : list lreg) : cst :=
  mkSt l (tbase st) (tcount st) (tused st) (loops st) (ip st).
Definition set_temps (st : cst) (c u : N) : cst :=
  mkSt (locals st) (tbase st) c u (loops st) (ip st).
Definition set_loops (st : cst) (l : list loopinfo) : cst :=
  mkSt (locals st) (tbase st) (tcount st) (tused st) l (ip st).

(* push_op: the instruction goes out and bytes.len() grows *)
Definition emit (i : instr) : M unit := fun st => OK (tt, set_ip st (ip st + size i), [i]).
(* bytes of an instruction whose operands are fixed later *)
Definition advance (n : N) : M unit := fun st => OK (tt, set_ip st (ip st + n), []).
Definition emit_raw (c : code) : M unit := fun st => OK (tt, st, c).
Definition capture {A} (m : M A) : M (A * code) :=
  fun st => match m st with OK (a, st1, c) => OK ((a, c), st1, []) | Err e => Err e end.
Definition get_ip : M N := fun st => OK (ip st, st, []).
(* update_offset_placeholder: u16::try_from(offset) *)
Definition check_u16 (n : N) : M N := if n <=? 65535 then ret n else fail CompileError.

(* ---- Frame (frame.rs) *)
Fixpoint find_local (p : lreg -> bool) (l : list lreg) (i : N) : option N :=
  match l with
  | [] => None
  | x :: r => if p x then Some i else find_local p r (i + 1)
  end.
Definition is_assigned (x : ident) (l : lreg) : bool :=
  match l with LAssigned y => N.eqb y x | _ => false end.
Definition is_assigned_or_reserved (x : ident) (l : lreg) : bool :=
  match l with LAssigned y | LReserved y => N.eqb y x | LAllocated => false end.
Definition get_local_assigned_register (st : cst) (x : ident) : option N :=
  find_local (is_assigned x) (locals st) 0.

Definition reserve_local_register (x : ident) : M N := fun st =>
  match find_local (is_assigned_or_reserved x) (locals st) 0 with
  | Some r => OK (r, st, [])
  | None =>
    let l := locals st ++ [LReserved x] in
    let new := N.of_nat (length l) - 1 in
    if new <? tbase st then OK (new, set_locals st l, []) else Err CompileError
  end.

Fixpoint set_nth {A} (l : list A) (n : nat) (a : A) : list A :=
  match l, n with
  | [], _ => []
  | _ :: r, O => a :: r
  | x :: r, S n => x :: set_nth r n a
  end.

Definition commit_local_register (r : N) : M unit := fun st =>
  match nth_error (locals st) (N.to_nat r) with
  | Some (LAssigned _) => OK (tt, st, [])
  | Some (LReserved x) => OK (tt, set_locals st (set_nth (locals st) (N.to_nat r) (LAssigned x)), [])
  | _ => Err CompileError
  end.

Definition push_register : M N := fun st =>
  let new := tbase st + tcount st in
  if new =? 255 then Err CompileError
  else OK (new, set_temps st (tcount st + 1) (N.max (tused st) (tcount st + 1)), []).
Definition pop_register : M unit := fun st =>
  if tcount st =? 0 then Err CompileError
  else OK (tt, set_temps st (tcount st - 1) (tused st), []).
Definition pop_if (b : bool) : M unit := if b then pop_register else ret tt.
Definition stack_count : M N := fun st => OK (tcount st, st, []).
Definition truncate_register_stack (n : N) : M unit := fun st =>
  OK (tt, set_temps st (N.min (tcount st) n) (tused st), []).

Definition push_loop (start : N) (r : option N) : M unit := fun st =>
  OK (tt, set_loops st (mkLoop r start :: loops st), []).
Definition pop_loop : M unit := fun st =>
  match loops st with
  | [] => Err CompileError
  | _ :: r => OK (tt, set_loops st r, [])
  end.
Definition current_loop : M (option loopinfo) := fun st =>
  OK (match loops st with [] => None | l :: _ => Some l end, st, []).

(* ---- compile_node helpers *)
Definition assign_result_register (r : rr) : M cout :=
  match r with
  | RFixed reg => ret (out_assigned reg)
  | RAny => do t <- push_register; ret (out_temp t)
  | RNone => ret out_none
  end.
Definition unwrap (o : cout) : M N :=
  match o_reg o with Some r => ret r | None => fail CompileError end.
Definition emit_opt (o : option N) (f : N -> instr) : M unit :=
  match o with Some r => emit (f r) | None => ret tt end.
Definition fixed_or_none (o : option N) : rr :=
  match o with Some r => RFixed r | None => RNone end.

(* compile_load_id; a non-local identifier is outside Core-0 *)
Definition compile_load_id (x : ident) (r : rr) : M cout :=
  fun st =>
    match get_local_assigned_register st x with
    | Some l =>
      match r with
      | RNone => ret out_none st
      | RAny => ret (out_assigned l) st
      | RFixed reg => (do _ <- emit (ICopy reg l); ret (out_assigned reg)) st
      end
    | None => Err Unsupported
    end.

(* a forward conditional / unconditional jump over the code of [m] *)
Definition jump_over {A} (mk : N -> instr) (m : M A) : M A :=
  do _ <- advance (size (mk 0));
  do ip1 <- get_ip;
  do '(a, c) <- capture m;
  do ip2 <- get_ip;
  do off <- check_u16 (ip2 - ip1);
  do _ <- emit_raw (mk off :: c);
  ret a.

(* pop_loop_and_update_placeholders for the `break` placeholders *)
Fixpoint resolve (endip : N) (c : code) : res code :=
  match c with
  | [] => OK []
  | i :: r =>
    match resolve endip r with
    | Err e => Err e
    | OK r' =>
      match i with
      | IHole p =>
        (* offset = bytes.len() - offset_ip - 2 (usize: cannot underflow), then u16::try_from *)
        if (p + 2 <=? endip) && (endip - p - 2 <=? 65535) then OK (IJump (endip - p - 2) :: r')
        else Err CompileError
      | _ => OK (i :: r')
      end
    end
  end.
Definition resolve_m (endip : N) (c : code) : M code :=
  fun st => match resolve endip c with OK c' => OK (c', st, []) | Err e => Err e end.

(* push_jump_back_op: offset = bytes.len() + 3 - target_ip, u16::try_from *)
Definition jump_back (start : N) : M unit :=
  do here <- get_ip;
  do off <- check_u16 (here + 3 - start);
  emit (IJumpBack off).

(* ---- constant pool (koto_parser::ConstantPoolBuilder): strings (identifiers) and integers
   outside -255..255, in order of first appearance in the source *)
Inductive pentry := PStr (x : ident) | PInt (z : Z).
Definition pentry_eqb (a b : pentry) : bool :=
  match a, b with
  | PStr x, PStr y => N.eqb x y
  | PInt x, PInt y => Z.eqb x y
  | _, _ => false
  end.
Fixpoint pool_find (e : pentry) (l : list pentry) (i : N) : option N :=
  match l with
  | [] => None
  | x :: r => if pentry_eqb x e then Some i else pool_find e r (i + 1)
  end.
Definition pool_add (e : pentry) (l : list pentry) : list pentry :=
  match pool_find e l 0 with Some _ => l | None => l ++ [e] end.
Definition small_int (z : Z) : bool := (Z.abs z <=? 255)%Z.

Section PoolHelpers.
  Variable pe : expr -> list pentry -> list pentry.
  Fixpoint pool_list (es : list expr) (acc : list pentry) : list pentry :=
    match es with [] => acc | e :: r => pool_list r (pe e acc) end.
  Fixpoint pool_arms (arms : list (expr * expr)) (acc : list pentry) : list pentry :=
    match arms with [] => acc | (c, t) :: r => pool_arms r (pe t (pe c acc)) end.
End PoolHelpers.

Fixpoint pool_expr (e : expr) (acc : list pentry) : list pentry :=
  match e with
  | ENull | EBool _ | EContinue => acc
  | EInt z => if small_int z then acc else pool_add (PInt z) acc
  | EId x => pool_add (PStr x) acc
  | ENested a | ENeg a | ENot a | ELoop a => pool_expr a acc
  | EArith _ a b | ECmp _ a b | ELogic _ a b | EWhile a b | EUntil a b =>
    pool_expr b (pool_expr a acc)
  | EAssign x a | EOpAssign _ x a => pool_expr a (pool_add (PStr x) acc)
  | EBlock es => pool_list pool_expr es acc
  | EIf c t elifs els =>
    let acc := pool_arms pool_expr ((c, t) :: elifs) acc in
    match els with Some a => pool_expr a acc | None => acc end
  | EBreak (Some a) => pool_expr a acc
  | EBreak None => acc
  end.
Definition pool_of (p : program) : list pentry := pool_list pool_expr p [].

(* identifiers assigned with `=` anywhere in the frame (parser: Frame::ids_assigned_in_frame) *)
Section AsgHelpers.
  Variable ae : expr -> list ident -> list ident.
  Fixpoint asg_list (es : list expr) (acc : list ident) : list ident :=
    match es with [] => acc | e :: r => asg_list r (ae e acc) end.
  Fixpoint asg_arms (arms : list (expr * expr)) (acc : list ident) : list ident :=
    match arms with [] => acc | (c, t) :: r => asg_arms r (ae t (ae c acc)) end.
End AsgHelpers.
Definition add_id (x : ident) (l : list ident) : list ident :=
  if existsb (N.eqb x) l then l else x :: l.
Fixpoint asg_expr (e : expr) (acc : list ident) : list ident :=
  match e with
  | ENull | EBool _ | EContinue | EInt _ | EId _ | EBreak None => acc
  | ENested a | ENeg a | ENot a | ELoop a | EOpAssign _ _ a | EBreak (Some a) => asg_expr a acc
  | EArith _ a b | ECmp _ a b | ELogic _ a b | EWhile a b | EUntil a b => asg_expr b (asg_expr a acc)
  | EAssign x a => asg_expr a (add_id x acc)
  | EBlock es => asg_list asg_expr es acc
  | EIf c t elifs els =>
    let acc := asg_arms asg_expr ((c, t) :: elifs) acc in
    match els with Some a => asg_expr a acc | None => acc end
  end.
Definition local_count (p : program) : N := N.of_nat (length (asg_list asg_expr p [])).

(* ---- compile_node *)
Definition i64_literal (z : Z) : bool := (Z.abs z <=? 9223372036854775807)%Z.

Section ListCompilers.
  Variable cmp : expr -> rr -> M cout.

  (* compile_block *)
  Fixpoint comp_block (r : rr) (es : list expr) : M cout :=
    match es with
    | [] =>
      do result <- assign_result_register r;
      match o_reg result with
      | Some reg => do _ <- emit (ISetNull reg); ret result
      | None => fail CompileError            (* MissingResultRegister *)
      end
    | e :: rest =>
      match rest with
      | [] => cmp e r
      | _ => do _ <- cmp e RNone; comp_block r rest
      end
    end.

  (* compile_if: the `if` arm and the `else if` arms, then else / SetNull.
     has_jump: whether this arm ends with `Jump -> END` (always for else-if arms) *)
  Section Arms.
    Variable ectx : rr.
    Variable resreg : option N.
    Variable els : option expr.
    Fixpoint comp_arms (has_jump : bool) (arms : list (expr * expr)) : M unit :=
      match arms with
      | [] =>
        match els with
        | Some e => do _ <- cmp e ectx; ret tt
        | None => emit_opt resreg ISetNull
        end
      | (c, t) :: rest =>
        do cond <- cmp c RAny;
        do creg <- unwrap cond;
        do _ <- advance 4;                                   (* JumpIfFalse creg + placeholder *)
        do ip1 <- get_ip;
        do '(_, c_then) <- capture (do _ <- pop_if (o_temp cond); cmp t ectx);
        do _ <- (if has_jump then advance 3 else ret tt);    (* Jump + placeholder *)
        do ip2 <- get_ip;
        do off1 <- check_u16 (ip2 - ip1);
        do '(_, c_rest) <- capture (comp_arms true rest);
        do ip3 <- get_ip;
        do off2 <- (if has_jump then check_u16 (ip3 - ip2) else ret 0);
        emit_raw (IJumpIfFalse creg off1 :: c_then ++ (if has_jump then [IJump off2] else []) ++ c_rest)
      end.
  End Arms.
End ListCompilers.

(* compile_loop; [cond] = the compilation of the condition (with Any) and the negate flag,
   [mbody] = the compilation of the body *)
Definition comp_loop (cond : option (M cout * bool)) (mbody : rr -> M cout) (r : rr) : M cout :=
  do result <- assign_result_register r;
  do _ <- match cond with
          | Some _ => emit_opt (o_reg result) ISetNull
          | None => ret tt
          end;
  do start <- get_ip;
  do _ <- push_loop start (o_reg result);
  do '(cj, c_cond) <-
     capture (match cond with
              | Some (mc, neg) =>
                do co <- mc;
                do creg <- unwrap co;
                do _ <- advance 4;                     (* JumpIfFalse/True + loop placeholder *)
                do ip1 <- get_ip;
                do _ <- pop_if (o_temp co);
                ret (Some (creg, neg, ip1))
              | None => ret None
              end);
  do '(bo, c_body) <- capture (mbody (fixed_or_none (o_reg result)));
  do '(_, c_back) <- capture (jump_back start);
  do _ <- pop_if (o_temp bo);
  do _ <- pop_loop;
  do endip <- get_ip;
  do c_cond' <- resolve_m endip c_cond;
  do c_body' <- resolve_m endip c_body;
  do c_jump <- match cj with
               | Some (creg, neg, ip1) =>
                 do off <- check_u16 (endip - ip1);
                 ret [if neg : bool then IJumpIfTrue creg off else IJumpIfFalse creg off]
               | None => ret []
               end;
  do _ <- emit_raw (c_cond' ++ c_jump ++ c_body' ++ c_back);
  ret result.

Section Compiler.
  Variable pool : list pentry.

  Fixpoint comp (e : expr) (r : rr) {struct e} : M cout :=
    match e with
    | ENull =>
      do result <- assign_result_register r;
      do _ <- emit_opt (o_reg result) ISetNull;
      ret result
    | EBool b =>
      do result <- assign_result_register r;
      do _ <- emit_opt (o_reg result) (if b then ISetTrue else ISetFalse);
      ret result
    | EInt z =>
      if negb (i64_literal z) then fail Unsupported else
      do result <- assign_result_register r;
      if small_int z then
        do _ <- emit_opt (o_reg result)
                  (fun reg => if (z =? 0)%Z then ISet0 reg
                              else if (z =? 1)%Z then ISet1 reg
                              else if (0 <=? z)%Z then ISetU8 reg (Z.to_N z)
                              else ISetNegU8 reg (Z.to_N (- z)));
        ret result
      else
        match pool_find (PInt z) pool 0 with
        | Some idx => do _ <- emit_opt (o_reg result) (fun reg => ILoadInt reg idx); ret result
        | None => fail Unsupported
        end
    | EId x => compile_load_id x r
    | ENested a => comp a r
    | ENeg a =>
      do result <- assign_result_register r;
      do v <- comp a RAny;
      do vreg <- unwrap v;
      do _ <- emit_opt (o_reg result) (fun reg => INegate reg vreg);
      do _ <- pop_if (o_temp v);
      ret result
    | ENot a =>
      do result <- assign_result_register r;
      do v <- comp a RAny;
      do vreg <- unwrap v;
      do _ <- emit_opt (o_reg result) (fun reg => INot reg vreg);
      do _ <- pop_if (o_temp v);
      ret result
    | EArith o a b =>
      do result <- assign_result_register r;
      match o_reg result with
      | Some reg =>
        do l <- comp a RAny;
        do lreg <- unwrap l;
        do rh <- comp b RAny;
        do rreg <- unwrap rh;
        do _ <- emit (IArith o reg lreg rreg);
        do _ <- pop_if (o_temp l);
        do _ <- pop_if (o_temp rh);
        ret result
      | None =>
        do _ <- comp a RNone;
        do _ <- comp b RNone;
        ret result
      end
    | EOpAssign o x a =>
      do result <- assign_result_register r;
      do rh <- comp a RAny;
      do rreg <- unwrap rh;
      do l <- compile_load_id x RAny;
      do lreg <- unwrap l;
      do _ <- emit (IArithAssign o lreg rreg);
      do _ <- emit_opt (o_reg result) (fun reg => ICopy reg lreg);
      do _ <- pop_if (o_temp l);
      do _ <- pop_if (o_temp rh);
      ret result
    | ECmp o a b =>
      do result <- assign_result_register r;
      do sc <- stack_count;
      do cmpreg <- match o_reg result with Some reg => ret reg | None => push_register end;
      do l <- comp a RAny;
      do lreg <- unwrap l;
      do _ <- comp_chain b (comp b RAny) o lreg cmpreg (o_reg result);
      do _ <- truncate_register_stack sc;
      ret result
    | ELogic o a b =>
      do result <- assign_result_register r;
      do reg <- match o_reg result with Some reg => ret reg | None => push_register end;
      do _ <- comp a (RFixed reg);
      do _ <- jump_over (match o with LAnd => IJumpIfFalse reg | LOr => IJumpIfTrue reg end)
                        (comp b (RFixed reg));
      do _ <- pop_if (match o_reg result with None => true | Some _ => false end);
      ret result
    | EAssign x a =>
      do l <- reserve_local_register x;
      do v <- comp a (RFixed l);
      do vreg <- unwrap v;
      do _ <- (if o_temp v then ret tt else commit_local_register vreg);
      match r with
      | RFixed reg =>
        do _ <- (if reg =? vreg then ret tt else emit (ICopy reg vreg));
        ret (out_assigned reg)
      | RAny => ret v
      | RNone => ret out_none
      end
    | EBlock es => comp_block comp r es
    | EIf c t elifs els =>
      do result <- assign_result_register r;
      do _ <- comp_arms comp (fixed_or_none (o_reg result)) (o_reg result) els
                (negb (match elifs with [] => true | _ => false end)
                 || (match els with Some _ => true | None => false end)
                 || (match o_reg result with Some _ => true | None => false end))
                ((c, t) :: elifs);
      ret result
    | EWhile c b => comp_loop (Some (comp c RAny, false)) (comp b) r
    | EUntil c b => comp_loop (Some (comp c RAny, true)) (comp b) r
    | ELoop b => comp_loop None (comp b) r
    | EBreak v =>
      do cl <- current_loop;
      match cl with
      | None => fail CompileError                      (* InvalidLoopKeyword *)
      | Some li =>
        do _ <- match l_result li, v with
                | Some lr, Some a => do _ <- comp a (RFixed lr); ret tt
                | Some lr, None => emit (ISetNull lr)
                | None, Some _ => fail CompileError    (* UnassignedBreakValue *)
                | None, None => ret tt
                end;
        do here <- get_ip;
        do _ <- emit (IHole (here + 1));
        ret out_none
      end
    | EContinue =>
      do cl <- current_loop;
      match cl with
      | None => fail CompileError
      | Some li =>
        do _ <- emit_opt (l_result li) ISetNull;
        do _ <- jump_back (l_start li);
        ret out_none
      end
    end

  (* the tail of compile_comparison_op: [lreg o rhs] with rhs possibly continuing the chain *)
  (* [mrhs] is always [comp rhs RAny] (passed in so that the recursion stays structural) *)
  with comp_chain (rhs : expr) (mrhs : M cout) (o : cop) (lreg cmpreg : N) (resreg : option N)
       {struct rhs} : M unit :=
    match rhs with
    | ECmp o2 b c =>
      do bo <- comp b RAny;
      do breg <- unwrap bo;
      do _ <- emit (ICmp o cmpreg lreg breg);
      jump_over (IJumpIfFalse cmpreg) (comp_chain c (comp c RAny) o2 breg cmpreg resreg)
    | _ =>
      do ro <- mrhs;
      do rreg <- unwrap ro;
      emit_opt resreg (fun reg => ICmp o reg lreg rreg)
    end.

End Compiler.

(* compile_frame for the main block + Compiler::compile_ast *)
Definition init_st (lc : N) : cst := mkSt [LAllocated] (1 + lc) 0 0 [] 2.

Record chunk := mkChunk { ch_bytes : list N; ch_consts : list pentry }.

Definition compile_code (p : program) : res (code * list pentry) :=
  let pool := pool_of p in
  let lc := local_count p in
  (* u8::try_from(local_count) in compile_node, u8::try_from(1 + local_count) in Frame::new *)
  if 255 <? 1 + lc then Err CompileError else
  let body :=
    do blk <- comp_block (comp pool) RAny p;
    match o_reg blk with
    | Some reg =>
      do _ <- emit (IReturn reg);
      pop_if (o_temp blk)
    | None =>
      do t <- push_register;
      do _ <- emit (ISetNull t);
      do _ <- emit (IReturn t);
      pop_register
    end in
  match body (init_st lc) with
  | OK (_, st, c) => OK (INewFrame (tbase st + tused st) :: c, pool)
  | Err e => Err e
  end.

Definition compile (p : program) : res chunk :=
  match compile_code p with
  | OK (c, pool) =>
    (* every operand fits its field (registers are u8 by construction in the Rust) *)
    if forallb wf_instr c then OK (mkChunk (encode_code c) pool) else Err CompilePanic
  | Err e => Err e
  end.
