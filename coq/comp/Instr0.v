(* The instructions Core-0 compiles to, their encoding (crates/bytecode/src/op.rs layout, opcode
   numbers from GenOps0.v) and the decoder (instruction_reader.rs) restricted to them. *)
From Coq Require Import ZArith NArith List Bool.
From KV.comp Require Import Ast0 GenOps0.
Import ListNotations.
Open Scope N_scope.

Inductive instr :=
| INewFrame (n : N)
| ICopy (t s : N)
| ISetNull (r : N)
| ISetFalse (r : N)
| ISetTrue (r : N)
| ISet0 (r : N)
| ISet1 (r : N)
| ISetU8 (r n : N)
| ISetNegU8 (r n : N)
| ILoadInt (r c : N)                 (* constant index, var-u32 *)
| INegate (r v : N)
| INot (r v : N)
| IArith (o : aop) (r a b : N)
| IArithAssign (o : aop) (l r : N)
| ICmp (o : cop) (r a b : N)
| IJump (off : N)
| IJumpBack (off : N)
| IJumpIfFalse (r off : N)
| IJumpIfTrue (r off : N)
| IReturn (r : N)
| IHole (p : N).                     (* `break`: Jump whose offset placeholder (at ip p) is still 0 0 *)

Definition code := list instr.

(* ---- var-u32 (7 bits per byte, little end first, high bit = continuation) *)
Fixpoint enc_var (fuel : nat) (n : N) : list N :=
  match fuel with
  | O => [n mod 128]
  | S f => if n <? 128 then [n] else (n mod 128 + 128) :: enc_var f (n / 128)
  end.
Definition encode_var (n : N) : list N := enc_var 4 n.

Fixpoint dec_var (fuel : nat) (bs : list N) : option (N * list N) :=
  match bs with
  | [] => None
  | b :: rest =>
    if b <? 128 then Some (b, rest)
    else match fuel with
         | O => None
         | S f => match dec_var f rest with
                  | Some (r, rest') => Some (b - 128 + 128 * r, rest')
                  | None => None
                  end
         end
  end.
Definition decode_var (bs : list N) : option (N * list N) := dec_var 4 bs.

Definition var_len (n : N) : N := N.of_nat (length (encode_var n)).

Definition aop_op (o : aop) : N :=
  match o with OAdd => op_Add | OSub => op_Subtract | OMul => op_Multiply end.
Definition aop_assign_op (o : aop) : N :=
  match o with OAdd => op_AddAssign | OSub => op_SubtractAssign | OMul => op_MultiplyAssign end.
Definition cop_op (o : cop) : N :=
  match o with
  | CLt => op_Less | CLe => op_LessOrEqual | CGt => op_Greater | CGe => op_GreaterOrEqual
  | CEq => op_Equal | CNe => op_NotEqual
  end.

Definition lo (n : N) : N := n mod 256.
Definition hi (n : N) : N := (n / 256) mod 256.

Definition encode (i : instr) : list N :=
  match i with
  | INewFrame n => [op_NewFrame; n]
  | ICopy t s => [op_Copy; t; s]
  | ISetNull r => [op_SetNull; r]
  | ISetFalse r => [op_SetFalse; r]
  | ISetTrue r => [op_SetTrue; r]
  | ISet0 r => [op_Set0; r]
  | ISet1 r => [op_Set1; r]
  | ISetU8 r n => [op_SetNumberU8; r; n]
  | ISetNegU8 r n => [op_SetNumberNegU8; r; n]
  | ILoadInt r c => op_LoadInt :: r :: encode_var c
  | INegate r v => [op_Negate; r; v]
  | INot r v => [op_Not; r; v]
  | IArith o r a b => [aop_op o; r; a; b]
  | IArithAssign o l r => [aop_assign_op o; l; r]
  | ICmp o r a b => [cop_op o; r; a; b]
  | IJump off => [op_Jump; lo off; hi off]
  | IJumpBack off => [op_JumpBack; lo off; hi off]
  | IJumpIfFalse r off => [op_JumpIfFalse; r; lo off; hi off]
  | IJumpIfTrue r off => [op_JumpIfTrue; r; lo off; hi off]
  | IReturn r => [op_Return; r]
  | IHole _ => [op_Jump; 0; 0]
  end.

Definition size (i : instr) : N :=
  match i with
  | INewFrame _ | ISetNull _ | ISetFalse _ | ISetTrue _ | ISet0 _ | ISet1 _ | IReturn _ => 2
  | ICopy _ _ | ISetU8 _ _ | ISetNegU8 _ _ | INegate _ _ | INot _ _ | IArithAssign _ _ _
  | IJump _ | IJumpBack _ | IHole _ => 3
  | IArith _ _ _ _ | ICmp _ _ _ _ | IJumpIfFalse _ _ | IJumpIfTrue _ _ => 4
  | ILoadInt _ c => 2 + var_len c
  end.

Fixpoint code_size (c : code) : N :=
  match c with [] => 0 | i :: r => size i + code_size r end.

Definition encode_code (c : code) : list N := flat_map encode c.

(* operands fit their byte fields *)
Definition wf_instr (i : instr) : bool :=
  match i with
  | INewFrame n => n <? 256
  | ICopy t s => (t <? 256) && (s <? 256)
  | ISetNull r | ISetFalse r | ISetTrue r | ISet0 r | ISet1 r | IReturn r => r <? 256
  | ISetU8 r n | ISetNegU8 r n => (r <? 256) && (n <? 256)
  | ILoadInt r c => (r <? 256) && (c <? 4294967296)
  | INegate r v | INot r v => (r <? 256) && (v <? 256)
  | IArith _ r a b | ICmp _ r a b => (r <? 256) && (a <? 256) && (b <? 256)
  | IArithAssign _ l r => (l <? 256) && (r <? 256)
  | IJump off | IJumpBack off => off <? 65536
  | IJumpIfFalse r off | IJumpIfTrue r off => (r <? 256) && (off <? 65536)
  | IHole _ => false
  end.

(* ---- decoder: instruction_reader.rs `next()` for these opcodes.
   returns the instruction and the number of bytes consumed *)
Definition u16le (a b : N) : N := a + 256 * b.

Definition decode (bs : list N) : option (instr * N) :=
  match bs with
  | op :: a :: rest =>
    let one (f : N -> instr) :=
      match rest with b :: _ => Some (f b, 3) | _ => None end in
    let two (f : N -> N -> instr) :=
      match rest with b :: c :: _ => Some (f b c, 4) | _ => None end in
    if op =? op_NewFrame then Some (INewFrame a, 2)
    else if op =? op_Copy then one (fun b => ICopy a b)
    else if op =? op_SetNull then Some (ISetNull a, 2)
    else if op =? op_SetFalse then Some (ISetFalse a, 2)
    else if op =? op_SetTrue then Some (ISetTrue a, 2)
    else if op =? op_Set0 then Some (ISet0 a, 2)
    else if op =? op_Set1 then Some (ISet1 a, 2)
    else if op =? op_SetNumberU8 then one (fun b => ISetU8 a b)
    else if op =? op_SetNumberNegU8 then one (fun b => ISetNegU8 a b)
    else if op =? op_LoadInt then
      match decode_var rest with
      | Some (c, rest') => Some (ILoadInt a c, 2 + (N.of_nat (length rest) - N.of_nat (length rest')))
      | None => None
      end
    else if op =? op_Negate then one (fun b => INegate a b)
    else if op =? op_Not then one (fun b => INot a b)
    else if op =? op_Add then two (fun b c => IArith OAdd a b c)
    else if op =? op_Subtract then two (fun b c => IArith OSub a b c)
    else if op =? op_Multiply then two (fun b c => IArith OMul a b c)
    else if op =? op_AddAssign then one (fun b => IArithAssign OAdd a b)
    else if op =? op_SubtractAssign then one (fun b => IArithAssign OSub a b)
    else if op =? op_MultiplyAssign then one (fun b => IArithAssign OMul a b)
    else if op =? op_Less then two (fun b c => ICmp CLt a b c)
    else if op =? op_LessOrEqual then two (fun b c => ICmp CLe a b c)
    else if op =? op_Greater then two (fun b c => ICmp CGt a b c)
    else if op =? op_GreaterOrEqual then two (fun b c => ICmp CGe a b c)
    else if op =? op_Equal then two (fun b c => ICmp CEq a b c)
    else if op =? op_NotEqual then two (fun b c => ICmp CNe a b c)
    else if op =? op_Jump then one (fun b => IJump (u16le a b))
    else if op =? op_JumpBack then one (fun b => IJumpBack (u16le a b))
    else if op =? op_JumpIfFalse then two (fun b c => IJumpIfFalse a (u16le b c))
    else if op =? op_JumpIfTrue then two (fun b c => IJumpIfTrue a (u16le b c))
    else if op =? op_Return then Some (IReturn a, 2)
    else None
  | _ => None
  end.
