(* Core-0: the fragment of Koto covered by the compiler-correctness component of C01.
   The AST mirrors koto_parser's Node for this fragment (Nested = parentheses is kept because the
   real compiler looks at it when it decides whether `a < b < c` is a chain). *)
From Coq Require Import ZArith NArith List Bool.
Import ListNotations.

Definition ident := N.              (* variable number k is spelt v<k> in source *)

Inductive aop := OAdd | OSub | OMul.
Inductive cop := CLt | CLe | CGt | CGe | CEq | CNe.
Inductive lop := LAnd | LOr.

Inductive expr :=
| ENull
| EBool (b : bool)
| EInt (z : Z)                      (* literal; SmallInt when |z| <= 255, pooled constant otherwise *)
| EId (x : ident)
| ENested (e : expr)                (* ( e ) *)
| ENeg (e : expr)                   (* -e   (e a term) *)
| ENot (e : expr)                   (* not e *)
| EArith (o : aop) (a b : expr)
| ECmp (o : cop) (a b : expr)       (* a chain when b is itself an (unparenthesised) ECmp *)
| ELogic (o : lop) (a b : expr)
| EAssign (x : ident) (e : expr)    (* x = e *)
| EOpAssign (o : aop) (x : ident) (e : expr)   (* x op= e *)
| EBlock (es : list expr)
| EIf (c t : expr) (elifs : list (expr * expr)) (els : option expr)
| EWhile (c b : expr)
| EUntil (c b : expr)
| ELoop (b : expr)
| EBreak (v : option expr)
| EContinue.

(* A program is the body of the main block. *)
Definition program := list expr.

Inductive value := VNull | VBool (b : bool) | VInt (z : Z).

Definition value_eqb (a b : value) : bool :=
  match a, b with
  | VNull, VNull => true
  | VBool x, VBool y => Bool.eqb x y
  | VInt x, VInt y => Z.eqb x y
  | _, _ => false
  end.

(* i64 wrap-around *)
Definition two63 : Z := 9223372036854775808%Z.
Definition two64 : Z := 18446744073709551616%Z.
Definition wrap (z : Z) : Z := ((z + two63) mod two64 - two63)%Z.

(* null and false are the only falsy values *)
Definition truthy (v : value) : bool :=
  match v with VNull => false | VBool b => b | VInt _ => true end.

(* error classes (koto_runtime::ErrorKind): UnexpectedType (negating a non-number) and
   InvalidBinaryOp (arithmetic / ordering on non-numbers) *)
Inductive err := ErrType | ErrBinop.

Definition arith_z (o : aop) (a b : Z) : Z :=
  match o with OAdd => wrap (a + b) | OSub => wrap (a - b) | OMul => wrap (a * b) end.

Definition arith (o : aop) (a b : value) : value + err :=
  match a, b with
  | VInt x, VInt y => inl (VInt (arith_z o x y))
  | _, _ => inr ErrBinop
  end.

Definition negate (a : value) : value + err :=
  match a with VInt x => inl (VInt (wrap (- x))) | _ => inr ErrType end.

Definition compare (o : cop) (a b : value) : value + err :=
  match o with
  | CEq => inl (VBool (value_eqb a b))
  | CNe => inl (VBool (negb (value_eqb a b)))
  | _ =>
    match a, b with
    | VInt x, VInt y =>
      inl (VBool (match o with
                  | CLt => Z.ltb x y | CLe => Z.leb x y | CGt => Z.gtb x y | CGe => Z.geb x y
                  | _ => false end))
    | _, _ => inr ErrBinop
    end
  end.
