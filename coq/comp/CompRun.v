(* Encoders used by checks/c01_comp.py (coq_eval): results are nested lists of N numbers. *)
From Coq Require Import ZArith NArith List Bool.
From KV.comp Require Import Ast0 Sem0 Instr0 Comp0 VM0 Known0.
Import ListNotations.
Open Scope N_scope.

Definition u64 (z : Z) : N := Z.to_N (z mod two64).

Definition enc_value (v : value) : list N :=
  match v with VNull => [0] | VBool b => [1; if b then 1 else 0] | VInt z => [2; u64 z] end.
Definition enc_err (c : err) : N := match c with ErrType => 0 | ErrBinop => 1 end.

Definition enc_vm (r : vmres) : list N :=
  match r with
  | VDone v => 0 :: enc_value v
  | VFail c => [1; enc_err c]
  | VPanic => [2]
  | VBad => [3]
  | VTimeout => [4]
  end.
Definition enc_sem (r : Sem0.result) : list N :=
  match r with
  | Done v => 0 :: enc_value v
  | Failed c => [1; enc_err c]
  | Timeout => [4]
  | Stuck => [5]
  end.

Definition enc_pentry (e : pentry) : list N :=
  match e with PStr x => [0; x] | PInt z => [1; u64 z] end.

(* 0 ok / 1 compile error / 2 panic / 3 outside Core-0 *)
Definition enc_compile (r : res chunk) : N * list N * list (list N) :=
  match r with
  | OK ch => (0, ch_bytes ch, map enc_pentry (ch_consts ch))
  | Err CompileError => (1, [], [])
  | Err CompilePanic => (2, [], [])
  | Err Unsupported => (3, [], [])
  end.

Definition vm_fuel : nat := Nat.mul 300 300.
Definition sem_fuel : nat := 3000.

(* everything the check needs for one program:
   model compilation; VM0 on the model's own chunk; VM0 on the chunk of the REAL compiler
   (bytes + integer constants by index); Sem0; class flags *)
Definition case_out (p : program) (real_bytes : list N) (real_consts : list pentry) :=
  let c := compile p in
  (enc_compile c,
   (match c with OK ch => enc_vm (VM0.run vm_fuel ch) | Err _ => [9] end,
    (enc_vm (VM0.run vm_fuel (mkChunk real_bytes real_consts)),
     (enc_sem (Sem0.run sem_fuel p),
      [if known_C01 p then 1 else 0; if wf0 p then 1 else 0])))).
