(* Facts about the reference semantics: an expression without an escaping break / continue never
   evaluates to one. *)
From Coq Require Import ZArith NArith List Bool Lia.
From KV.comp Require Import Ast0 Sem0 Known0.
Import ListNotations.

Definition no_jump (o : outcome) : Prop :=
  match o with OBrk _ _ | OCont _ => False | _ => True end.

Section Helpers.
  Variable ev : env -> expr -> outcome.
  Hypothesis EV : forall e s, esc e = false -> no_jump (ev s e).

  Lemma eval_block_nj : forall es s, any_list esc es = false -> no_jump (eval_block ev s es).
  Proof.
    induction es as [|e rest IH]; intros s H; cbn [eval_block]; [exact I|].
    cbn [any_list] in H. apply orb_false_elim in H as [He Hr].
    destruct rest as [|e2 rest]; [apply EV; assumption|].
    pose proof (EV e s He) as J. destruct (ev s e); try exact J; try exact I. apply IH. assumption.
  Qed.

  Lemma eval_chain_nj : forall rhs s lv o, esc rhs = false -> no_jump (eval_chain ev s lv o rhs).
  Proof.
    induction rhs; intros s lv o0 H;
      try (cbn [eval_chain];
           match goal with |- no_jump (match ev ?s0 ?e0 with _ => _ end) =>
             pose proof (EV e0 s0 H) as J; destruct (ev s0 e0) as [rv s1| | | |];
             try exact J; try exact I; destruct (compare o0 lv rv); exact I end).
    cbn [eval_chain]. cbn [esc] in H. apply orb_false_elim in H as [Hb Hc].
    pose proof (EV _ s Hb) as J. destruct (ev s rhs1); try exact J; try exact I.
    destruct (compare o0 lv v); [|exact I]. destruct (truthy v0); [apply IHrhs2; assumption|exact I].
  Qed.

  Lemma eval_elifs_nj : forall arms els s, any_arms esc arms = false -> any_opt esc els = false ->
    no_jump (eval_elifs ev s arms els).
  Proof.
    induction arms as [|[c t] rest IH]; intros els s H1 H2; cbn [eval_elifs].
    - destruct els; [apply EV; exact H2|exact I].
    - cbn [any_arms] in H1. apply orb_false_elim in H1 as [H1 Hr]. apply orb_false_elim in H1 as [Hc Ht].
      pose proof (EV c s Hc) as J. destruct (ev s c); try exact J; try exact I.
      destruct (truthy v); [apply EV; assumption|apply IH; assumption].
  Qed.

  Lemma eval_loop_nj : forall k cond body s last,
    (forall c neg, cond = Some (c, neg) -> esc c = false) ->
    no_jump (eval_loop ev k cond body s last).
  Proof.
    induction k; intros cond body s last HC; cbn [eval_loop]; [exact I|].
    assert (RB : forall s1, no_jump (match ev s1 body with
                                     | ONorm v s2 => eval_loop ev k cond body s2 v
                                     | OBrk v s2 => ONorm v s2
                                     | OCont s2 => eval_loop ev k cond body s2 VNull
                                     | OErr c => OErr c
                                     | OFuel => OFuel end)).
    { intros s1. destruct (ev s1 body); try exact I; apply IHk; assumption. }
    destruct cond as [[c neg]|]; [|apply RB].
    pose proof (EV c s (HC _ _ eq_refl)) as J. destruct (ev s c); try exact J; try exact I.
    destruct (xorb (truthy v) neg); [apply RB|exact I].
  Qed.
End Helpers.

Lemma sem_no_esc : forall n e s, esc e = false -> no_jump (eval n s e).
Proof.
  induction n; intros e s H; [exact I|].
  destruct e; cbn [eval]; cbn [esc] in H; try exact I; try discriminate H.
  - apply IHn. assumption.
  - pose proof (IHn e s H) as J. destruct (eval n s e); try exact J; try exact I. destruct (negate v); exact I.
  - pose proof (IHn e s H) as J. destruct (eval n s e); try exact J; exact I.
  - apply orb_false_elim in H as [Ha Hb].
    pose proof (IHn e1 s Ha) as J. destruct (eval n s e1); try exact J; try exact I.
    pose proof (IHn e2 s0 Hb) as J2. destruct (eval n s0 e2); try exact J2; try exact I.
    destruct (arith o v v0); exact I.
  - apply orb_false_elim in H as [Ha Hb].
    pose proof (IHn e1 s Ha) as J. destruct (eval n s e1); try exact J; try exact I.
    apply eval_chain_nj; auto.
  - apply orb_false_elim in H as [Ha Hb].
    pose proof (IHn e1 s Ha) as J. destruct (eval n s e1); try exact J; try exact I.
    destruct o; destruct (truthy v); try exact I; apply IHn; assumption.
  - pose proof (IHn e s H) as J. destruct (eval n s e); try exact J; exact I.
  - pose proof (IHn e s H) as J. destruct (eval n s e); try exact J; try exact I.
    destruct (arith o (s0 x) v); exact I.
  - apply eval_block_nj; auto.
  - apply orb_false_elim in H as [H1 H2]. apply eval_elifs_nj; auto.
  - apply eval_loop_nj; auto. intros c neg E. inversion E; subst. assumption.
  - apply eval_loop_nj; auto. intros c neg E. inversion E; subst. assumption.
  - apply eval_loop_nj; auto. intros c neg E. discriminate.
Qed.

(* a bare break / continue never completes normally *)
Definition not_norm (o : outcome) : Prop := match o with ONorm _ _ => False | _ => True end.

Lemma jump_not_norm : forall n e s, is_jump e = true -> not_norm (eval n s e).
Proof.
  induction n; intros e s J; [exact I|].
  destruct e; cbn [is_jump] in J; try discriminate J; cbn [eval].
  - apply IHn. assumption.
  - revert s. induction es as [|e0 rest IHr]; intros s; [discriminate|].
    cbn [eval_block]. destruct rest as [|e1 rest].
    + apply IHn. assumption.
    + destruct (eval n s e0); try exact I. apply IHr. assumption.
  - destruct v as [a|]; [|exact I]. destruct (eval n s a); exact I.
  - exact I.
Qed.
