(* Encoding / decoding round trip, code addressing, and: the byte-level VM (VM0.step, what the real
   VM does: decode at ip, execute) refines the instruction-level machine used by the simulation. *)
From Coq Require Import ZArith NArith List Bool Lia.
From KV.comp Require Import Ast0 GenOps0 Instr0 Comp0 VM0.
Import ListNotations.
Open Scope N_scope.
Ltac Zify.zify_post_hook ::= Z.to_euclidean_division_equations.

(* ---- var-u32 *)
Lemma dec_enc_var : forall f n rest, n < 2 ^ (7 * (N.of_nat f + 1)) ->
  dec_var f (enc_var f n ++ rest) = Some (n, rest).
Proof.
  induction f; intros n rest Hn.
  - assert (Hn' : n < 128) by exact Hn. clear Hn. cbn [enc_var app dec_var].
    rewrite N.mod_small by lia. destruct (n <? 128) eqn:E; [reflexivity|apply N.ltb_ge in E; lia].
  - cbn [enc_var]. destruct (n <? 128) eqn:E.
    + simpl. rewrite E. reflexivity.
    + apply N.ltb_ge in E. cbn [app dec_var].
      assert (Hm : n mod 128 < 128) by (apply N.mod_lt; lia).
      destruct (n mod 128 + 128 <? 128) eqn:E2; [apply N.ltb_lt in E2; clear - E2; lia|].
      rewrite IHf.
      * f_equal. f_equal. pose proof (N.div_mod n 128 ltac:(lia)). clear - H. lia.
      * apply N.div_lt_upper_bound; [lia|].
        replace (7 * (N.of_nat (S f) + 1)) with (7 + 7 * (N.of_nat f + 1)) in Hn by lia.
        rewrite N.pow_add_r in Hn. exact Hn.
Qed.

Lemma decode_encode_var : forall n rest, n < 4294967296 ->
  decode_var (encode_var n ++ rest) = Some (n, rest).
Proof.
  intros. apply dec_enc_var. change (2 ^ (7 * (N.of_nat 4 + 1))) with 34359738368. lia.
Qed.

Lemma lo_hi : forall n, n < 65536 -> u16le (lo n) (hi n) = n.
Proof.
  intros n H. unfold u16le, lo, hi.
  rewrite (N.mod_small (n / 256)) by (apply N.div_lt_upper_bound; lia).
  pose proof (N.div_mod n 256 ltac:(lia)). lia.
Qed.

Lemma size_encode : forall i, N.of_nat (length (encode i)) = size i.
Proof. destruct i; try reflexivity. cbn [encode size length]. unfold var_len. lia. Qed.

Lemma size_pos : forall i, 0 < size i.
Proof. destruct i; cbn [size]; lia. Qed.

(* instruction_reader decodes what the compiler encoded *)
Lemma decode_encode_app : forall i rest, wf_instr i = true ->
  decode (encode i ++ rest) = Some (i, size i).
Proof.
  intros i rest W.
  destruct i; cbn [wf_instr] in W; try discriminate;
    repeat (apply andb_prop in W; destruct W as [W ?]);
    repeat match goal with H : (_ <? _) = true |- _ => apply N.ltb_lt in H end;
    try (destruct o); try (cbn; reflexivity);
    try (cbn; rewrite lo_hi by assumption; reflexivity).
  (* LoadInt *)
  cbn [encode app]. unfold decode.
  change (op_LoadInt =? op_NewFrame) with false. cbv beta iota.
  repeat match goal with |- context [op_LoadInt =? ?x] =>
    let b := eval vm_compute in (op_LoadInt =? x) in change (op_LoadInt =? x) with b; cbv iota end.
  rewrite decode_encode_var by assumption.
  rewrite app_length. cbn [size]. unfold var_len. f_equal. f_equal. lia.
Qed.

(* ---- addressing code by byte offset *)
Definition code_at (prog : code) (pc : N) (c : code) : Prop :=
  exists pre post, prog = pre ++ c ++ post /\ code_size pre = pc.

Lemma code_size_app : forall a b, code_size (a ++ b) = code_size a + code_size b.
Proof. induction a; intros; cbn [app code_size]; [lia|rewrite IHa; lia]. Qed.

Lemma app_eq_size : forall l1 r1 l2 r2 : code,
  l1 ++ r1 = l2 ++ r2 -> code_size l1 = code_size l2 -> l1 = l2 /\ r1 = r2.
Proof.
  induction l1; intros r1 l2 r2 E S.
  - destruct l2; [auto|]. cbn [code_size] in S. pose proof (size_pos i). lia.
  - destruct l2.
    + cbn [code_size] in S. pose proof (size_pos a). lia.
    + cbn [app] in E. injection E as -> E. cbn [code_size] in S.
      destruct (IHl1 _ _ _ E ltac:(lia)) as [-> ->]. auto.
Qed.

Lemma code_at_app : forall prog pc c1 c2,
  code_at prog pc (c1 ++ c2) <-> code_at prog pc c1 /\ code_at prog (pc + code_size c1) c2.
Proof.
  intros. split.
  - intros (pre & post & E & S). split.
    + exists pre, (c2 ++ post). rewrite <- app_assoc in E. auto.
    + exists (pre ++ c1), post. rewrite <- !app_assoc in *. split; [assumption|].
      rewrite code_size_app. lia.
  - intros [(pre & post & E & S) (pre2 & post2 & E2 & S2)].
    exists pre, post2. split; [|assumption].
    rewrite E in E2. rewrite app_assoc in E2.
    apply app_eq_size in E2; [|rewrite code_size_app; lia].
    destruct E2 as [_ ->]. rewrite E. rewrite <- !app_assoc. reflexivity.
Qed.

Lemma code_at_cons : forall prog pc i c,
  code_at prog pc (i :: c) <-> code_at prog pc [i] /\ code_at prog (pc + size i) c.
Proof.
  intros. change (i :: c) with ([i] ++ c). rewrite code_at_app. cbn [code_size]. rewrite N.add_0_r. tauto.
Qed.

Lemma code_at_nil : forall prog pc c, code_at prog pc c -> code_at prog pc [].
Proof. intros prog pc c (pre & post & E & S). exists pre, (c ++ post). auto. Qed.

Lemma instr_at_app : forall pre i post, instr_at (pre ++ i :: post) (code_size pre) = Some i.
Proof.
  induction pre; intros; cbn [app code_size instr_at].
  - reflexivity.
  - pose proof (size_pos a).
    destruct (size a + code_size pre =? 0) eqn:E; [apply N.eqb_eq in E; lia|].
    destruct (size a + code_size pre <? size a) eqn:E2; [apply N.ltb_lt in E2; lia|].
    replace (size a + code_size pre - size a) with (code_size pre) by lia. apply IHpre.
Qed.

Lemma code_at_instr : forall prog pc i, code_at prog pc [i] -> instr_at prog pc = Some i.
Proof. intros prog pc i (pre & post & -> & <-). apply instr_at_app. Qed.

Lemma code_at_bound : forall prog pc c, code_at prog pc c -> pc + code_size c <= code_size prog.
Proof. intros prog pc c (pre & post & -> & <-). rewrite !code_size_app. lia. Qed.

(* ---- bytes vs instructions *)
Lemma encode_code_app : forall a b, encode_code (a ++ b) = encode_code a ++ encode_code b.
Proof. intros. unfold encode_code. apply flat_map_app. Qed.

Lemma length_encode_code : forall c, N.of_nat (length (encode_code c)) = code_size c.
Proof.
  induction c; [reflexivity|]. unfold encode_code in *. cbn [flat_map code_size].
  rewrite app_length, Nat2N.inj_add, IHc, size_encode. reflexivity.
Qed.

Lemma skipn_encode : forall pre i post,
  skipn (N.to_nat (code_size pre)) (encode_code (pre ++ i :: post)) = encode i ++ encode_code post.
Proof.
  intros. rewrite encode_code_app.
  replace (N.to_nat (code_size pre)) with (length (encode_code pre) + 0)%nat
    by (rewrite <- length_encode_code; lia).
  rewrite skipn_app. rewrite Nat.add_0_r, skipn_all, Nat.sub_diag. reflexivity.
Qed.

Lemma encode_two : forall i rest, exists a b r, encode i ++ rest = a :: b :: r.
Proof. destruct i; intros; cbn; eauto. Qed.

(* one step of the real (byte) machine = one step of the instruction machine, at every
   instruction boundary of a chunk that is the encoding of well-formed instructions *)
Lemma step_refines : forall prog consts pc rs i,
  forallb wf_instr prog = true ->
  instr_at prog pc = Some i ->
  step (mkChunk (encode_code prog) consts) pc rs = istep consts prog pc rs.
Proof.
  intros prog consts pc rs i W H.
  assert (exists pre post, prog = pre ++ i :: post /\ code_size pre = pc) as (pre & post & -> & <-).
  { clear W. revert pc H. induction prog; intros; [discriminate|].
    cbn [instr_at] in H. destruct (pc =? 0) eqn:E.
    - apply N.eqb_eq in E. injection H as ->. exists [], prog. auto.
    - destruct (pc <? size a) eqn:E2; [discriminate|]. apply N.ltb_ge in E2.
      destruct (IHprog _ H) as (pre & post & -> & S).
      exists (a :: pre), post. cbn [app code_size]. split; [reflexivity|lia]. }
  unfold step, istep. cbn [ch_bytes ch_consts]. rewrite instr_at_app, skipn_encode.
  rewrite forallb_app in W. apply andb_prop in W as [_ W]. cbn [forallb] in W.
  apply andb_prop in W as [W _].
  rewrite decode_encode_app by assumption.
  destruct (encode_two i (encode_code post)) as (a & b & r & E). rewrite E. reflexivity.
Qed.
