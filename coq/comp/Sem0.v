(* Reference semantics of Core-0, written from docs/language_guide.md: a fuelled big-step
   evaluator over an environment of variables.  No registers, no jumps, no result modes.
     - operands are evaluated left to right, each exactly once
     - `and` / `or` short-circuit and yield the deciding operand
     - `a < b < c` means `a < b and b < c` with b evaluated once; parentheses break the chain
     - integer arithmetic wraps; null and false are the only falsy values
     - the value of an assignment is the assigned value; `x op= e` evaluates e, then reads x
     - the value of `if` is the value of the branch taken (null when no branch is taken)
     - the value of a loop is the value given to `break`, null for a bare `break`; when the
       condition ends the loop it is the value of the last completed run of the body (null if
       there was none or if it was cut short by `continue`)   [the guide shows only the `break`
       part; the rest is the natural reading of "the result of the loop"]
     - type errors are an outcome. *)
From Coq Require Import ZArith NArith List Bool.
From KV.comp Require Import Ast0.
Import ListNotations.

Definition env := ident -> value.
Definition env0 : env := fun _ => VNull.
Definition upd (s : env) (x : ident) (v : value) : env :=
  fun y => if N.eqb y x then v else s y.

Inductive outcome :=
| ONorm (v : value) (s : env)
| OBrk (v : value) (s : env)        (* break [v] travelling to the enclosing loop *)
| OCont (s : env)
| OErr (c : err)
| OFuel.

Section Helpers.
  Variable ev : env -> expr -> outcome.

  Fixpoint eval_block (s : env) (es : list expr) : outcome :=
    match es with
    | [] => ONorm VNull s
    | e :: rest =>
      match rest with
      | [] => ev s e
      | _ => match ev s e with ONorm _ s1 => eval_block s1 rest | o => o end
      end
    end.

  (* [lv op rhs] where lv is the already evaluated left operand *)
  Fixpoint eval_chain (s : env) (lv : value) (o : cop) (rhs : expr) : outcome :=
    match rhs with
    | ECmp o2 b c =>
      match ev s b with
      | ONorm bv s1 =>
        match compare o lv bv with
        | inr c => OErr c
        | inl r => if truthy r then eval_chain s1 bv o2 c else ONorm r s1
        end
      | o => o
      end
    | _ =>
      match ev s rhs with
      | ONorm rv s1 =>
        match compare o lv rv with inr c => OErr c | inl r => ONorm r s1 end
      | o => o
      end
    end.

  Fixpoint eval_elifs (s : env) (elifs : list (expr * expr)) (els : option expr) : outcome :=
    match elifs with
    | [] => match els with Some e => ev s e | None => ONorm VNull s end
    | (c, t) :: rest =>
      match ev s c with
      | ONorm cv s1 => if truthy cv then ev s1 t else eval_elifs s1 rest els
      | o => o
      end
    end.

  (* cond = Some (c, negate) for while (false) / until (true), None for loop *)
  Fixpoint eval_loop (k : nat) (cond : option (expr * bool)) (body : expr) (s : env) (last : value)
    : outcome :=
    match k with
    | O => OFuel
    | S k =>
      let run_body s1 :=
        match ev s1 body with
        | ONorm v s2 => eval_loop k cond body s2 v
        | OBrk v s2 => ONorm v s2
        | OCont s2 => eval_loop k cond body s2 VNull
        | OErr c => OErr c
        | OFuel => OFuel
        end in
      match cond with
      | None => run_body s
      | Some (c, neg) =>
        match ev s c with
        | ONorm cv s1 => if xorb (truthy cv) neg then run_body s1 else ONorm last s1
        | o => o
        end
      end
    end.
End Helpers.

Fixpoint eval (n : nat) (s : env) (e : expr) : outcome :=
  match n with
  | O => OFuel
  | S n =>
    match e with
    | ENull => ONorm VNull s
    | EBool b => ONorm (VBool b) s
    | EInt z => ONorm (VInt z) s
    | EId x => ONorm (s x) s
    | ENested e => eval n s e
    | ENeg a =>
      match eval n s a with
      | ONorm v s1 => match negate v with inl r => ONorm r s1 | inr c => OErr c end
      | o => o
      end
    | ENot a =>
      match eval n s a with
      | ONorm v s1 => ONorm (VBool (negb (truthy v))) s1
      | o => o
      end
    | EArith o a b =>
      match eval n s a with
      | ONorm va s1 =>
        match eval n s1 b with
        | ONorm vb s2 => match arith o va vb with inl r => ONorm r s2 | inr c => OErr c end
        | o => o
        end
      | o => o
      end
    | ECmp o a b =>
      match eval n s a with
      | ONorm va s1 => eval_chain (eval n) s1 va o b
      | o => o
      end
    | ELogic o a b =>
      match eval n s a with
      | ONorm va s1 =>
        match o with
        | LAnd => if truthy va then eval n s1 b else ONorm va s1
        | LOr => if truthy va then ONorm va s1 else eval n s1 b
        end
      | o => o
      end
    | EAssign x a =>
      match eval n s a with
      | ONorm v s1 => ONorm v (upd s1 x v)
      | o => o
      end
    | EOpAssign o x a =>
      match eval n s a with
      | ONorm v s1 =>
        match arith o (s1 x) v with
        | inl r => ONorm r (upd s1 x r)
        | inr c => OErr c
        end
      | o => o
      end
    | EBlock es => eval_block (eval n) s es
    | EIf c t elifs els => eval_elifs (eval n) s ((c, t) :: elifs) els
    | EWhile c b => eval_loop (eval n) n (Some (c, false)) b s VNull
    | EUntil c b => eval_loop (eval n) n (Some (c, true)) b s VNull
    | ELoop b => eval_loop (eval n) n None b s VNull
    | EBreak None => OBrk VNull s
    | EBreak (Some a) =>
      match eval n s a with
      | ONorm v s1 => OBrk v s1
      | o => o
      end
    | EContinue => OCont s
    end
  end.

Inductive result := Done (v : value) | Failed (c : err) | Timeout | Stuck.

(* a script: the main block; its value is the value of the last expression *)
Definition run (fuel : nat) (p : program) : result :=
  match eval_block (eval fuel) env0 p with
  | ONorm v _ => Done v
  | OErr c => Failed c
  | OFuel => Timeout
  | _ => Stuck                         (* break / continue outside a loop *)
  end.
