(* Simulation cases: break, continue, while / until / loop. *)
From Coq Require Import ZArith NArith List Bool Lia.
From KV.comp Require Import Ast0 Sem0 Instr0 Comp0 VM0 Known0 InstrLemmas CompLemmas SemLemmas SimBase SimExpr SimQ.
Import ListNotations.
Open Scope N_scope.
Ltac Zify.zify_post_hook ::= Z.to_euclidean_division_equations.
Ltac norm_code H := repeat rewrite ?app_nil_l, ?app_nil_r in H; repeat rewrite <- app_assoc in H.

Lemma fixed_ok_noRA : forall e x, reads x e = false -> assigns x e = false -> fixed_ok x e = true.
Proof.
  induction e using expr_ind2; intros y R A; cbn [fixed_ok]; try reflexivity.
  - apply IHe; assumption.
  - cbn in R, A. apply orb_false_elim in R as [R1 R2]. apply orb_false_elim in A as [A1 A2].
    destruct e2; try reflexivity.
    cbn in R2, A2. apply orb_false_elim in R2 as [R2 R3]. apply orb_false_elim in A2 as [A2 A3].
    rewrite R2, R3, A2, A3. reflexivity.
  - cbn in R, A. apply orb_false_elim in R as [R1 R2]. apply orb_false_elim in A as [A1 A2].
    rewrite IHe1, IHe2 by assumption. rewrite R2. reflexivity.
  - cbn [reads assigns] in R, A. induction es as [|e0 rest IHr]; [reflexivity|].
    inversion H; subst. cbn [any_list] in R, A.
    apply orb_false_elim in R as [R1 R2]. apply orb_false_elim in A as [A1 A2].
    cbn [last_of]. destruct rest as [|e1 rest]; [apply H2; assumption|]. apply IHr; assumption.
  - cbn [reads assigns] in R, A. apply orb_false_elim in R as [R1 R2]. apply orb_false_elim in A as [A1 A2].
    apply andb_true_intro. split.
    + cbn [any_arms all_branches] in *. apply orb_false_elim in R1 as [R1 R3]. apply orb_false_elim in A1 as [A1 A3].
      apply orb_false_elim in R1 as [_ R1]. apply orb_false_elim in A1 as [_ A1].
      rewrite IHe2 by assumption. cbn.
      clear - H R3 A3. induction elifs as [|[c0 t0] rest IHr]; [reflexivity|].
      inversion H; subst. destruct H2 as (_ & Ht). cbn [fst snd] in *.
      cbn [any_arms all_branches] in *. apply orb_false_elim in R3 as [R3 R4]. apply orb_false_elim in A3 as [A3 A4].
      apply orb_false_elim in R3 as [_ R3]. apply orb_false_elim in A3 as [_ A3].
      rewrite Ht by assumption. apply IHr; assumption.
    + destruct els as [e0|]; [|reflexivity]. cbn in *. apply (H0 e0 eq_refl); assumption.
  - rewrite R, A. reflexivity.
  - rewrite R, A. reflexivity.
  - rewrite R, A. reflexivity.
Qed.

Lemma jump_back_inv : forall start st u st' c, jump_back start st = OK (u, st', c) ->
  c = [IJumpBack (ip st + 3 - start)] /\ st' = set_ip st (ip st + 3) /\ ip st + 3 - start <= 65535.
Proof.
  intros start st u st' c H. unfold jump_back in H.
  apply bind_inv in H. destruct H as (here & stx & cz & c2 & HG & H & ->).
  unfold get_ip in HG. inversion HG; subst here stx cz; clear HG.
  apply bind_inv in H. destruct H as (off & stx & cz & c3 & HV & H & ->).
  apply check_u16_inv in HV. destruct HV as (-> & -> & -> & OFF).
  unfold emit in H. inversion H; subst. cbn [size]. auto.
Qed.


Lemma set_loops_same : forall st, set_loops st (loops st) = st.
Proof. destruct st; reflexivity. Qed.

Lemma ext_set_loops : forall a b l, ext a b -> ext (set_loops a l) (set_loops b l).
Proof. intros a b l [E1 E2 E3 E4 E5 E6 E7]. constructor; auto. Qed.

Lemma wfst_set_loops : forall a l, wfst a -> wfst (set_loops a l).
Proof. intros a l [W1 W2 W3]. constructor; auto. Qed.

Lemma inv_set_loops : forall F l D s rs, inv (set_loops F l) D s rs <-> inv F D s rs.
Proof. intros. split; intros [A B C]; constructor; auto. Qed.

Lemma pop_if_code : forall b st u st' c, pop_if b st = OK (u, st', c) -> c = [].
Proof.
  intros b st u st' c H. destruct b; cbn [pop_if] in H.
  - unfold pop_register in H. destruct (tcount st =? 0); [discriminate|]. inversion H. reflexivity.
  - unfold ret in H. inversion H. reflexivity.
Qed.

(* compile_loop, taken apart *)
Lemma loop_inv : forall (cond : option (M cout * bool)) (mbody : rr -> M cout) r st out st' code,
  comp_loop cond mbody r st = OK (out, st', code) -> wfst st ->
  exists res st1 st1n c_n st_cp cj c_cond bo st_b c_body c_cond' c_body' c_jump,
    assign_result_register r st = OK (res, st1, []) /\ out = res /\
    (match cond with
     | Some _ => emit_opt (o_reg res) ISetNull st1 = OK (tt, st1n, c_n)
     | None => st1n = st1 /\ c_n = []
     end) /\
    (let st_l := set_loops st1n (mkLoop (o_reg res) (ip st1n) :: loops st1n) in
     (match cond with
      | Some (mc, neg) =>
        exists co st_c creg cp, mc st_l = OK (co, st_c, c_cond) /\ o_reg co = Some creg /\
          pop_if (o_temp co) (set_ip st_c (ip st_c + 4)) = OK (tt, st_cp, cp) /\
          cj = Some (creg, neg, ip st_c + 4)
      | None => st_cp = st_l /\ c_cond = [] /\ cj = None
      end) /\
     mbody (fixed_or_none (o_reg res)) st_cp = OK (bo, st_b, c_body) /\
     ip st_b + 3 - ip st1n <= 65535 /\
     exists st_p cpp, pop_if (o_temp bo) (set_ip st_b (ip st_b + 3)) = OK (tt, st_p, cpp) /\
       (exists li ls, loops st_p = li :: ls /\ st' = set_loops st_p ls) /\
       resolve (ip st') c_cond = OK c_cond' /\ resolve (ip st') c_body = OK c_body' /\
       (match cj with
        | Some (creg, neg, ip1) => ip st' - ip1 <= 65535 /\
            c_jump = [if neg : bool then IJumpIfTrue creg (ip st' - ip1) else IJumpIfFalse creg (ip st' - ip1)]
        | None => c_jump = []
        end) /\
       code = c_n ++ c_cond' ++ c_jump ++ c_body' ++ [IJumpBack (ip st_b + 3 - ip st1n)]).
Proof.
  intros cond mbody r st out st' code H W. unfold comp_loop in H.
  apply bind_inv in H. destruct H as (res & st1 & c1 & c2 & HR & H & ->).
  pose proof HR as HR'. apply assign_result_inv in HR'; [|assumption]. destruct HR' as (-> & _).
  apply bind_inv in H. destruct H as (u & st1n & c_n & c3 & HN & H & ->). destruct u.
  apply bind_inv in H. destruct H as (start & stx & cz & c4 & HG & H & ->).
  unfold get_ip in HG. inversion HG; subst start stx cz; clear HG.
  apply bind_inv in H. destruct H as (u & st_l & cz & c5 & HPL & H & ->). destruct u.
  unfold push_loop in HPL. inversion HPL; subst st_l cz; clear HPL.
  apply bind_inv in H. destruct H as (pr & st_cp & cz & c6 & HC & H & ->).
  destruct pr as (cj & c_cond). apply capture_inv in HC. destruct HC as (HC & ->).
  apply bind_inv in H. destruct H as (pr & st_b & cz & c7 & HB & H & ->).
  destruct pr as (bo & c_body). apply capture_inv in HB. destruct HB as (HB & ->).
  apply bind_inv in H. destruct H as (pr & st_j & cz & c8 & HJ & H & ->).
  destruct pr as (uj & c_back). apply capture_inv in HJ. destruct HJ as (HJ & ->).
  apply jump_back_inv in HJ. destruct HJ as (-> & -> & OFFB).
  apply bind_inv in H. destruct H as (u & st_p & cpp & c9 & HP & H & ->). destruct u.
  pose proof (pop_if_code _ _ _ _ _ HP). subst cpp.
  apply bind_inv in H. destruct H as (u & st_e & cz & c10 & HPO & H & ->). destruct u.
  unfold pop_loop in HPO. destruct (loops st_p) as [|li ls] eqn:LP; [discriminate|].
  inversion HPO; subst st_e cz; clear HPO.
  apply bind_inv in H. destruct H as (endip & stx & cz & c11 & HG & H & ->).
  unfold get_ip in HG. inversion HG; subst endip stx cz; clear HG.
  apply bind_inv in H. destruct H as (c_cond' & stx & cz & c12 & HRC & H & ->).
  unfold resolve_m in HRC. match type of HRC with context [resolve ?a ?b] => destruct (resolve a b) as [cc'|] eqn:RC end; [|discriminate].
  inversion HRC; subst c_cond' stx cz; clear HRC.
  apply bind_inv in H. destruct H as (c_body' & stx & cz & c13 & HRB & H & ->).
  unfold resolve_m in HRB. match type of HRB with context [resolve ?a ?b] => destruct (resolve a b) as [cb'|] eqn:RB end; [|discriminate].
  inversion HRB; subst c_body' stx cz; clear HRB.
  apply bind_inv in H. destruct H as (c_jump & stx & cz & c14 & HCJ & H & ->).
  assert (CJ : stx = set_loops st_p ls /\ cz = [] /\
               match cj with
               | Some (creg, neg, ip1) => ip (set_loops st_p ls) - ip1 <= 65535 /\
                   c_jump = [if neg : bool then IJumpIfTrue creg (ip (set_loops st_p ls) - ip1)
                             else IJumpIfFalse creg (ip (set_loops st_p ls) - ip1)]
               | None => c_jump = []
               end).
  { destruct cj as [[[creg neg] ip1]|].
    - apply bind_inv in HCJ. destruct HCJ as (off & stx3 & cz3 & c16 & HV & HCJ & ->).
      apply check_u16_inv in HV. destruct HV as (-> & -> & -> & OFF).
      unfold ret in HCJ. inversion HCJ; subst. auto.
    - unfold ret in HCJ. inversion HCJ; subst. auto. }
  destruct CJ as (-> & -> & CJ). clear HCJ.
  apply bind_inv in H. destruct H as (u & stx2 & cz2 & c15 & HER & H & ->). destruct u.
  unfold emit_raw in HER. inversion HER; subst stx2 cz2; clear HER.
  unfold ret in H. inversion H; subst out st' c15; clear H.
  exists res, st1, st1n, c_n, st_cp, cj, c_cond, bo, st_b, c_body, cc', cb', c_jump.
  split; [exact HR|]. split; [reflexivity|].
  split.
  { destruct cond; [exact HN|]. unfold ret in HN. inversion HN. auto. }
  cbv zeta. split.
  { destruct cond as [[mc neg]|].
    - apply bind_inv in HC. destruct HC as (co & st_c & cc & c16 & HMC & HC & ->).
      apply bind_inv in HC. destruct HC as (creg & stx3 & cz3 & c17 & HU & HC & ->).
      apply unwrap_inv in HU. destruct HU as (OC & -> & ->).
      apply bind_inv in HC. destruct HC as (u & stx3 & cz3 & c18 & HA & HC & ->). destruct u.
      unfold advance in HA. inversion HA; subst stx3 cz3; clear HA.
      apply bind_inv in HC. destruct HC as (ip1 & stx3 & cz3 & c19 & HG & HC & ->).
      unfold get_ip in HG. inversion HG; subst ip1 stx3 cz3; clear HG.
      apply bind_inv in HC. destruct HC as (u & stx3 & cp & c20 & HPI & HC & ->). destruct u.
      pose proof (pop_if_code _ _ _ _ _ HPI). subst cp.
      unfold ret in HC. inversion HC; subst. cbn [ip set_ip] in *.
      exists co, st_c, creg, []. rewrite !app_nil_r. auto.
    - unfold ret in HC. inversion HC; subst. auto. }
  split; [exact HB|]. split; [exact OFFB|].
  exists st_p, []. split; [exact HP|]. split; [exists li, ls; split; [exact LP|reflexivity]|]. split; [exact RC|]. split; [exact RB|].
  split; [exact CJ|].
  rewrite !app_nil_l, !app_nil_r. reflexivity.
Qed.

Section SimL.
  Variable pool : list pentry.

  (* the owner of the loop's result register is marked dirty: nothing to add *)
  Lemma dirty_loop : forall st F (rs : regfile) D e lr r x li ls,
    loops st = li :: ls -> l_result li = Some lr -> loop_ok st rs D e -> ext st F -> wfst F ->
    dirty F (RFixed lr) D x = true -> dirty F r D x = true.
  Proof.
    intros st F rs D e lr r x li ls LP LR LO E W H. apply dirty_mono.
    unfold dirty in H. apply orb_true_iff in H as [H|H]; [assumption|].
    destruct (slot_of F x) as [l|] eqn:S; [|discriminate]. apply N.eqb_eq in H. subst l.
    unfold loop_ok in LO. rewrite LP in LO. destruct LO as (_ & LO).
    destruct (LO lr LR) as (_ & [A2|A2] & A3).
    - apply (A3 x). eapply slot_of_old; eauto.
    - destruct (slot_of_id _ _ _ S) as (L & _). pose proof (wf_len _ W). pose proof (ext_tbase _ _ E). lia.
  Qed.

  Lemma breakQ : forall v, (forall a, v = Some a -> Q pool a) -> Q pool (EBreak v).
  Proof.
    intros v IH WF r st out st' c H W Dr. cbn [comp] in H.
    apply bind_inv in H. destruct H as (cl & stx & cz & c2 & HCL & H & ->).
    unfold current_loop in HCL. inversion HCL; subst cl stx cz; clear HCL.
    destruct (loops st) as [|li ls] eqn:LP; [discriminate H|].
    apply bind_inv in H. destruct H as (u & st1 & c1 & c3 & HV & H & ->).
    apply bind_inv in H. destruct H as (here & stx & cz & c4 & HG & H & ->).
    unfold get_ip in HG. inversion HG; subst here stx cz; clear HG.
    apply bind_inv in H. destruct H as (u2 & st2 & ch & c5 & HE & H & ->).
    unfold emit in HE. inversion HE; subst u2 st2 ch; clear HE.
    unfold ret in H. inversion H; subst out st' c5; clear H.
    (* the value part: facts and, at run time, the loop's result register holds the value *)
    assert (VAL : ip st1 = ip st + code_size c1 /\ ext st st1 /\ wfst st1 /\ tcount st1 = tcount st /\
      forall n s rs D prog brk F, ext st1 F -> wfst F ->
        known_expr (EBreak v) = false -> inv F D s rs ->
        (forall x, D x = true -> reads x (EBreak v) = false) ->
        loop_ok st rs D (EBreak v) ->
        tbase st + tused st1 <= N.of_nat (length rs) -> cares prog brk (ip st) c1 ->
        match eval n s (EBreak v) with
        | OBrk bv s1 => exists rs1, star pool prog (ip st) rs (ip st1) rs1 /\ length rs1 = length rs /\
                         inv F D s1 rs1 /\ (forall lr, l_result li = Some lr -> get rs1 lr = Some bv) /\
                         (forall k, k < tbase st + tcount st -> Some k <> l_result li ->
                            (forall x, assigns x (EBreak v) = true -> slot_of st1 x <> Some k) ->
                            get rs1 k = get rs k) /\
                         (forall x, assigns x (EBreak v) = false -> s1 x = s x)
        | OErr ce => stops pool prog (ip st) rs (VFail ce)
        | OFuel => True
        | _ => False
        end).
    { destruct (l_result li) as [lr|] eqn:LR; destruct v as [a|].
      - (* break a, into the loop's result register *)
        cbn [wf_expr] in WF. apply andb_prop in WF as [NE WFa]. apply negb_true_iff in NE.
        apply bind_inv in HV. destruct HV as (oa & sta & ca & c6 & HA & HV & ->).
        unfold ret in HV. inversion HV; subst u st1 c6; clear HV.
        cbn [dropped] in Dr.
        destruct (IH a eq_refl WFa (RFixed lr) st oa sta ca HA W Dr) as ((I1 & E1 & W1 & SH) & DY).
        assert (TC : tcount sta = tcount st).
        { unfold shapeQ in SH. destruct (is_jump a); [tauto|]. cbn [shape] in SH. tauto. }
        rewrite app_nil_r. splits; auto.
        intros n s rs D prog brk F EF WFF K IV RD LO B CA. destruct n; [exact Logic.I|]. cbn [eval].
        cbn [known_expr] in K.
        pose proof LO as LO'. unfold loop_ok in LO'. rewrite LP in LO'. destruct LO' as (LS & LO').
        destruct (LO' lr LR) as (A1 & A2 & A3).
        assert (DO : dest_ok st (RFixed lr) rs D a).
        { intros d Ed. inversion Ed; subst d. splits; auto. intros x Sx.
          destruct (A3 x Sx) as (Dx & Ax). apply fixed_ok_noRA; [|exact Ax].
          apply RD in Dx. exact Dx. }
        assert (LOa : esc a = true -> loop_ok st rs D a) by (intros; congruence).
        specialize (DY n s rs D prog brk F EF WFF K IV RD DO LOa B CA).
        pose proof (sem_no_esc n a s NE) as NJ.
        destruct (eval n s a) as [bv s1| | | |]; try contradiction; auto.
        destruct DY as (rs1 & S1 & LN1 & IV1 & _ & FR1 & SF1 & FX).
        exists rs1. splits; auto.
        + eapply inv_weaken; [exact IV1|]. intros x Hx.
          assert (X : dirty F RNone D x = true).
          { eapply (dirty_loop st F rs D (EBreak (Some a)) lr RNone x li ls); eauto. eapply ext_trans; eauto. }
          unfold dirty in X. cbn in X. rewrite orb_false_r in X. exact X.
        + intros lr0 E0. inversion E0; subst. apply FX. reflexivity.
      - (* break: null into the loop's result register *)
        unfold emit in HV. inversion HV; subst u st1 c1; clear HV.
        cbn [code_size size ip set_ip tcount]. splits; auto; try lia.
        + apply ext_set_ip.
        + apply wfst_set_ip. assumption.
        + intros n s rs D prog brk F EF WFF K IV RD LO B CA. destruct n; [exact Logic.I|]. cbn [eval].
          pose proof LO as LO'. unfold loop_ok in LO'. rewrite LP in LO'. destruct LO' as (LS & LO').
          destruct (LO' lr LR) as (A1 & A2 & A3).
          destruct (set_ok rs lr VNull A1) as (rs1 & SET).
          apply cares_one in CA; [|reflexivity].
          exists rs1. splits.
          * apply star_one. rewrite (istep_at _ _ _ _ rs CA). cbn [exec]. unfold put. rewrite SET. reflexivity.
          * eapply set_length; eauto.
          * eapply (inv_setF st); eauto.
            { eapply ext_trans; [apply ext_set_ip|exact EF]. }
            destruct A2 as [A2|[A2 _]]; [right|left; assumption]. split; [assumption|].
            intros x Sx. apply (A3 x). eapply slot_of_old; eauto.
            eapply ext_trans; [apply ext_set_ip|exact EF].
          * intros lr0 E0. inversion E0; subst. eapply get_set_same; eauto.
          * intros k K1 K2 K3. eapply get_set_other; eauto. congruence.
          * intros. reflexivity.
      - discriminate HV.
      - unfold ret in HV. inversion HV; subst u st1 c1; clear HV.
        cbn [code_size]. splits; auto using ext_refl; try lia.
        intros n s rs D prog brk F EF WFF K IV RD LO B CA. destruct n; [exact Logic.I|]. cbn [eval].
        exists rs. splits; auto.
        + constructor.
        + intros lr0 E0. discriminate. }
    destruct VAL as (I1 & E1 & W1 & TC1 & DYV).
    set (st2 := set_ip st1 (ip st1 + size (IHole (ip st1 + 1)))) in *.
    split.
    - unfold factsQ, shapeQ. cbn [is_jump]. splits; auto.
      + rewrite !code_size_app. cbn [code_size size]. unfold st2. cbn [ip set_ip size]. lia.
      + eapply ext_trans; [exact E1|apply ext_set_ip].
      + apply wfst_set_ip. assumption.
    - intros n s rs D prog brk F EF WFF K IV RD DO LO B CA.
      specialize (LO eq_refl).
      norm_code CA. apply cares_app in CA as [CA1 CA2].
      assert (EF1 : ext st1 F) by (eapply ext_trans; [apply ext_set_ip|exact EF]).
      specialize (DYV n s rs D prog brk F EF1 WFF K IV RD LO B CA1).
      rewrite LP.
      destruct (eval n s (EBreak v)) as [|bv s1| | |]; try contradiction; auto.
      destruct DYV as (rs1 & S1 & LN1 & IV1 & RL & FR1 & SF1).
      apply cares_hole in CA2. destruct CA2 as (CAJ & OFF & GE).
      rewrite <- I1 in CAJ.
      exists rs1. splits; auto.
      + eapply star_trans; [exact S1|]. apply star_one.
        rewrite (istep_at _ _ _ _ rs1 CAJ). cbn [exec size]. f_equal. lia.
      + eapply inv_weaken; [exact IV1|]. intros. apply dirty_mono. assumption.
      + intros k K1 K2 K2' K3. apply FR1; auto.
  Qed.

  Lemma continueQ : Q pool EContinue.
  Proof.
    intros WF r st out st' c H W Dr. cbn [comp] in H.
    apply bind_inv in H. destruct H as (cl & stx & cz & c2 & HCL & H & ->).
    unfold current_loop in HCL. inversion HCL; subst cl stx cz; clear HCL.
    destruct (loops st) as [|li ls] eqn:LP; [discriminate H|].
    apply bind_inv in H. destruct H as (u & st1 & c1 & c3 & HV & H & ->).
    apply bind_inv in H. destruct H as (u2 & st2 & cj & c4 & HJ & H & ->).
    apply jump_back_inv in HJ. destruct HJ as (-> & -> & OFF).
    unfold ret in H. inversion H; subst out st' c4; clear H.
    assert (EM : (exists lr, l_result li = Some lr /\ c1 = [ISetNull lr] /\ st1 = set_ip st (ip st + 2)) \/
                 (l_result li = None /\ c1 = [] /\ st1 = st)).
    { destruct (l_result li) as [lr|]; cbn [emit_opt] in HV.
      - left. exists lr. unfold emit in HV. inversion HV. auto.
      - right. unfold ret in HV. inversion HV. auto. }
    split.
    - unfold factsQ, shapeQ. cbn [is_jump].
      destruct EM as [(lr & _ & -> & ->)|(_ & -> & ->)]; cbn [app code_size size ip set_ip tcount]; splits; auto; try lia.
      + eapply ext_trans; apply ext_set_ip.
      + apply wfst_set_ip. apply wfst_set_ip. assumption.
      + apply ext_set_ip.
      + apply wfst_set_ip. assumption.
    - intros n s rs D prog brk F EF WFF K IV RD DO LO B CA. destruct n; [exact Logic.I|]. cbn [eval].
      specialize (LO eq_refl). rewrite LP.
      pose proof LO as LO'. unfold loop_ok in LO'. rewrite LP in LO'. destruct LO' as (LS & LO').
      destruct EM as [(lr & LR & -> & ->)|(LR & -> & ->)].
      + destruct (LO' lr LR) as (A1 & A2 & A3).
        destruct (set_ok rs lr VNull A1) as (rs1 & SET).
        cbn [app] in CA. apply cares_cons in CA as [CA1 CA2]; [|reflexivity].
        apply cares_one in CA2; [|reflexivity]. cbn [size ip set_ip] in *.
        exists rs1. splits.
        * eapply star_trans; [apply star_one; rewrite (istep_at _ _ _ _ rs CA1); cbn [exec]; unfold put; rewrite SET; reflexivity|].
          apply star_one. rewrite (istep_at _ _ _ _ rs1 CA2). cbn [exec size].
          destruct (ip st + 2 + 3 <? ip st + 2 + 3 - l_start li) eqn:E; [apply N.ltb_lt in E; lia|].
          f_equal. lia.
        * eapply set_length; eauto.
        * eapply inv_weaken; [|intros; apply dirty_mono; eassumption].
          eapply (inv_setF st); eauto.
          { eapply ext_trans; [|exact EF]. eapply ext_trans; apply ext_set_ip. }
          destruct A2 as [A2|[A2 _]]; [right|left; assumption]. split; [assumption|].
          intros x Sx. apply (A3 x). eapply slot_of_old; eauto.
          eapply ext_trans; [|exact EF]. eapply ext_trans; apply ext_set_ip.
        * intros lr0 E0. rewrite LR in E0. inversion E0; subst. eapply get_set_same; eauto.
        * intros k K1 K2 K2' K3. eapply get_set_other; eauto. rewrite LR in K2'. congruence.
        * intros. reflexivity.
      + cbn [app] in CA. apply cares_one in CA; [|reflexivity].
        exists rs. splits; auto.
        * apply star_one. rewrite (istep_at _ _ _ _ rs CA). cbn [exec size].
          destruct (ip st + 3 <? ip st + 3 - l_start li) eqn:E; [apply N.ltb_lt in E; lia|].
          f_equal. lia.
        * eapply inv_weaken; [exact IV|]. intros. apply dirty_mono. assumption.
        * intros lr0 E0. congruence.
        * intros k _ _ _ _. reflexivity.
  Qed.

  Definition cexpr (cond : option (expr * bool)) (f : expr -> bool) : bool :=
    match cond with Some (c, _) => f c | None => false end.

  Lemma loopQ_gen : forall e (cond : option (expr * bool)) body,
    (forall r, comp pool e r =
       comp_loop (match cond with Some (c, neg) => Some (comp pool c RAny, neg) | None => None end)
                 (comp pool body) r) ->
    (forall n s, eval (S n) s e = eval_loop (eval n) n cond body s VNull) ->
    known_expr e = cexpr cond known_expr || known_expr body ->
    (forall x, reads x e = cexpr cond (reads x) || reads x body) ->
    (forall x, assigns x e = cexpr cond (assigns x) || assigns x body) ->
    (forall x, fixed_ok x e = negb (reads x e) && negb (assigns x e)) ->
    (forall d, dropped d e = cexpr cond (dropped false) || dropped d body) ->
    (wf_expr e = true ->
       (forall c neg, cond = Some (c, neg) -> esc c = false /\ wf_expr c = true) /\ wf_expr body = true) ->
    is_jump e = false -> out_var e = None ->
    (forall c neg, cond = Some (c, neg) -> Q pool c) -> Q pool body -> Q pool e.
  Proof.
    intros e cond body HC HE SK SR SA SF SD SW SJ SO Qc Qb WF r st out st' code H W Dr.
    destruct (SW WF) as (WFc & WFb).
    rewrite SD in Dr. apply orb_false_elim in Dr as [Drc Drb].
    rewrite HC in H. apply loop_inv in H; [|assumption].
    destruct H as (res & st1 & st1n & c_n & st_cp & cj & c_cond & bo & st_b & c_body & c_cond' & c_body' & c_jump
                   & HR & -> & HN & H).
    cbv zeta in H.
    destruct H as (HCO & HB & OFFB & st_p & cpp & HP & (li0 & ls & LP & ->) & RC & RB & HJ & ->).
    pose proof (fun rs D e => shape_reg_bound _ _ _ _ _ rs D e HR W) as RBD.
    apply assign_result_inv in HR; [|assumption]. destruct HR as (_ & I1 & E1 & W1 & L1 & T1 & SH).
    (* the SetNull in front of a conditional loop *)
    assert (EM : (exists reg, cond <> None /\ o_reg res = Some reg /\ c_n = [ISetNull reg] /\
                              st1n = set_ip st1 (ip st1 + 2)) \/
                 ((cond = None \/ o_reg res = None) /\ c_n = [] /\ st1n = st1)).
    { destruct cond as [[c neg]|].
      - destruct (o_reg res) as [reg|]; cbn [emit_opt] in HN.
        + left. exists reg. unfold emit in HN. inversion HN. splits; auto. discriminate.
        + right. unfold ret in HN. inversion HN. auto.
      - right. destruct HN. auto. }
    assert (N1 : wfst st1n /\ ext st1 st1n /\ tcount st1n = tcount st1 /\ tbase st1n = tbase st1 /\
                 ip st1n = ip st1 + code_size c_n /\ tused st1n = tused st1).
    { destruct EM as [(reg & _ & _ & -> & ->)|(_ & -> & ->)]; cbn [code_size size]; splits; auto using ext_refl;
        try (apply wfst_set_ip; assumption); try apply ext_set_ip; cbn; lia. }
    destruct N1 as (W1n & E1n & TC1n & TB1n & I1n & TU1n).
    set (li := mkLoop (o_reg res) (ip st1n)) in *.
    set (st_l := set_loops st1n (li :: loops st1n)) in *.
    assert (Wl : wfst st_l) by (apply wfst_set_loops; assumption).
    (* the condition *)
    assert (CD : ip st_cp = ip st_l + code_size c_cond + (match cond with Some _ => 4 | None => 0 end) /\
                 ext st_l st_cp /\ wfst st_cp /\ tcount st_cp = tcount st_l).
    { destruct cond as [[c neg]|].
      - destruct HCO as (co & st_c & creg & cp & HM & OC & HPI & _).
        destruct (WFc c neg eq_refl) as (NEc & WFcc).
        destruct (Qc c neg eq_refl WFcc RAny st_l co st_c c_cond HM Wl Drc) as ((Ic & Ec & Wc & SHc) & _).
        apply pop_if_inv in HPI; [|apply wfst_set_ip; assumption].
        destruct HPI as (_ & I2 & L2 & T2 & U2 & E2 & W2 & C2). cbn [ip set_ip tcount] in *.
        splits; auto.
        + lia.
        + eapply ext_trans; [exact Ec|]. eapply ext_trans; [apply ext_set_ip|exact E2].
        + unfold shapeQ in SHc. destruct (is_jump c) eqn:J; [apply is_jump_esc in J; congruence|].
          destruct SHc as [(-> & C)|(x & l & -> & C & _)]; cbn [o_temp out_temp out_assigned] in C2; lia.
      - destruct HCO as (-> & -> & _). cbn [code_size]. splits; auto using ext_refl. lia. }
    destruct CD as (Icp & Ecp & Wcp & TCcp).
    assert (Drb' : dropped (is_none (fixed_or_none (o_reg res))) body = false).
    { destruct r; [destruct SH as (-> & _)|destruct SH as (-> & _)|destruct SH as (-> & _)]; exact Drb. }
    destruct (Qb WFb (fixed_or_none (o_reg res)) st_cp bo st_b c_body HB Wcp Drb') as ((Ib & Eb & Wb & SHb) & DYb).
    assert (BO : o_temp bo = false /\ tcount st_b = tcount st_cp).
    { unfold shapeQ in SHb. destruct (is_jump body); [destruct SHb as (-> & ?); auto|].
      destruct (o_reg res); cbn [fixed_or_none shape] in SHb; destruct SHb as (-> & ?); auto. }
    destruct BO as (BT & TCb). rewrite BT in HP.
    apply pop_if_inv in HP; [|apply wfst_set_ip; assumption].
    destruct HP as (_ & Ip & Lp & Tp & Up & Ep & Wp & Cp). cbn [ip set_ip tcount tbase tused] in *.
    assert (Elp : ext st_l st_p).
    { eapply ext_trans; [exact Ecp|]. eapply ext_trans; [exact Eb|]. eapply ext_trans; [apply ext_set_ip|exact Ep]. }
    assert (LS : li0 = li /\ ls = loops st1n).
    { rewrite (ext_loops _ _ Elp) in LP. unfold st_l in LP. cbn in LP. inversion LP. auto. }
    destruct LS as (-> & ->).
    set (st_e := set_loops st_p (loops st1n)) in *.
    assert (E1e : ext st1n st_e).
    { pose proof (ext_set_loops _ _ (loops st1n) Elp) as X. unfold st_l in X.
      change (set_loops (set_loops st1n (li :: loops st1n)) (loops st1n)) with (set_loops st1n (loops st1n)) in X.
      rewrite set_loops_same in X. exact X. }
    assert (E0e : ext st st_e) by (eapply ext_trans; [exact E1|eapply ext_trans; eauto]).
    assert (We : wfst st_e) by (apply wfst_set_loops; assumption).
    assert (SZc : code_size c_cond' = code_size c_cond) by (eapply resolve_size; eauto).
    assert (SZb : code_size c_body' = code_size c_body) by (eapply resolve_size; eauto).
    assert (SZj : code_size c_jump = match cond with Some _ => 4 | None => 0 end).
    { destruct cond as [[c neg]|].
      - destruct HCO as (co & st_c & creg & cp & _ & _ & _ & ->). destruct HJ as (_ & ->). destruct neg; reflexivity.
      - destruct HCO as (_ & _ & ->). subst c_jump. reflexivity. }
    assert (IPe : ip st_e = ip st_b + 3) by (unfold st_e; cbn [ip set_loops]; lia).
    split.
    - unfold factsQ. splits; auto.
      + rewrite !code_size_app. cbn [code_size size]. unfold st_l in Icp. cbn [ip set_loops] in Icp. lia.
      + unfold shapeQ. rewrite SJ. unfold st_e. cbn [tcount set_loops].
        assert (tcount st_l = tcount st1n) by reflexivity.
        destruct r; cbn [shape].
        * destruct SH as (-> & ->). split; [reflexivity|cbn [tcount set_loops]; lia].
        * left. destruct SH as (-> & C & _). split; [reflexivity|cbn [tcount set_loops]; lia].
        * destruct SH as (-> & ->). split; [reflexivity|cbn [tcount set_loops]; lia].
    - intros n s rs D prog brk F EF WFF K IV RD DO LO B CA. destruct n; [exact Logic.I|]. rewrite HE.
      rewrite SK in K. apply orb_false_elim in K as [Kc Kb].
      set (L := li :: loops st1n) in *.
      set (Fl := set_loops F L).
      assert (WFl : wfst Fl) by (apply wfst_set_loops; assumption).
      assert (LPp : loops st_p = L) by (rewrite (ext_loops _ _ Elp); reflexivity).
      assert (EpF : ext st_p Fl).
      { pose proof (ext_set_loops _ _ L EF) as X. unfold st_e in X.
        change (set_loops (set_loops st_p (loops st1n)) L) with (set_loops st_p L) in X.
        replace (set_loops st_p L) with st_p in X; [exact X|].
        rewrite <- LPp. symmetry. apply set_loops_same. }
      assert (EbF : ext st_b Fl) by (eapply ext_trans; [apply ext_set_ip|eapply ext_trans; [exact Ep|exact EpF]]).
      assert (EcpF : ext st_cp Fl) by (eapply ext_trans; [exact Eb|exact EbF]).
      assert (ElF : ext st_l Fl) by (eapply ext_trans; [exact Ecp|exact EcpF]).
      assert (E0F : ext st F) by (eapply ext_trans; [exact E0e|exact EF]).
      assert (TBl : tbase st_l = tbase st) by (unfold st_l; cbn [tbase set_loops]; lia).
      assert (TCl : tcount st_l = tcount st1) by (unfold st_l; cbn [tcount set_loops]; lia).
      assert (IPl : ip st_l = ip st1n) by reflexivity.
      set (ectx := fixed_or_none (o_reg res)) in *.
      set (Dl := dirty F ectx D).
      assert (RK : (exists d, r = RFixed d /\ o_reg res = Some d /\ st1 = st) \/
                   (r = RAny /\ o_reg res = Some (tbase st + tcount st) /\ tcount st1 = tcount st + 1) \/
                   (r = RNone /\ o_reg res = None /\ st1 = st)).
      { destruct r; [destruct SH as (-> & ->)|destruct SH as (-> & C & _)|destruct SH as (-> & ->)]; cbn; eauto 8. }
      (* the result register: live, writable; its owner is untouched by the loop *)
      assert (RGP : forall reg, o_reg res = Some reg ->
                 reg < N.of_nat (length rs) /\
                 (reg < nlocals st \/ (tbase st <= reg /\ reg < tbase st + tcount st1)) /\
                 forall x, slot_of F x = Some reg -> Dl x = true /\ reads x e = false /\ assigns x e = false).
      { intros reg RG. destruct RK as [(d & -> & RR & ->)|[(-> & RR & C)|(-> & RR & ->)]]; rewrite RR in RG; inversion RG; subst reg.
        - destruct (DO _ eq_refl) as (A1 & A2 & A3). splits; auto. intros x Sx.
          assert (Sx0 : slot_of st x = Some d).
          { destruct A2 as [A2|A2]; [eapply slot_of_old; eauto|].
            destruct (slot_of_id _ _ _ Sx) as (LL1 & _). pose proof (wf_len _ WFF). pose proof (ext_tbase _ _ E0F). lia. }
          specialize (A3 x Sx0). rewrite SF in A3. apply andb_prop in A3 as [R1 R2].
          apply negb_true_iff in R1, R2. splits; auto.
          unfold Dl, ectx. rewrite RR. cbn [fixed_or_none]. apply dirty_self. assumption.
        - pose proof (wf_cnt _ W1). pose proof (ext_used _ _ E1e). pose proof (ext_used _ _ E1n).
          change (tused st_e) with (tused st_p) in B. change (tused st_e) with (tused st_p) in H0. splits.
          + lia.
          + right. lia.
          + intros x Sx. exfalso. destruct (slot_of_id _ _ _ Sx) as (LL1 & _). pose proof (wf_len _ WFF).
            pose proof (ext_tbase _ _ E0F). lia. }
      assert (RDl : forall x, Dl x = true -> reads x e = false).
      { intros x Hx. unfold Dl, dirty in Hx. apply orb_true_iff in Hx as [Hx|Hx]; [auto|].
        unfold ectx in Hx. destruct (o_reg res) as [reg|] eqn:RR; cbn [fixed_or_none] in Hx; [|discriminate].
        destruct (slot_of F x) as [l|] eqn:S; [|discriminate]. apply N.eqb_eq in Hx. subst l.
        destruct (RGP reg eq_refl) as (_ & _ & X). apply (X x S). }
      (* code layout *)
      apply cares_app in CA as [CAn CA]. apply cares_app in CA as [CAc' CA]. apply cares_app in CA as [CAj CA].
      apply cares_app in CA as [CAb' CAk]. apply cares_one in CAk; [|reflexivity].
      assert (IPcp : ip st_cp = ip st1n + code_size c_cond + code_size c_jump) by (rewrite SZj; lia).
      assert (CAc : cares prog (ip st_e) (ip st_l) c_cond).
      { eapply cares_resolved; [exact RC|]. rewrite IPl, I1n, I1. exact CAc'. }
      assert (CAb : cares prog (ip st_e) (ip st_cp) c_body).
      { eapply cares_resolved; [exact RB|].
        match type of CAb' with cares _ _ ?pc _ => assert (EQ : pc = ip st_cp) by lia end.
        rewrite EQ in CAb'. exact CAb'. }
      assert (CAk' : code_at prog (ip st_b) [IJumpBack (ip st_b + 3 - ip st1n)]).
      { match type of CAk with code_at _ ?pc _ => assert (EQ : pc = ip st_b) by lia end.
        rewrite EQ in CAk. exact CAk. }
      assert (BACK : forall rsx, star pool prog (ip st_b) rsx (ip st1n) rsx).
      { intros rsx. apply star_one. rewrite (istep_at _ _ _ _ rsx CAk'). cbn [exec size].
        destruct (ip st_b + 3 <? ip st_b + 3 - ip st1n) eqn:E; [apply N.ltb_lt in E; lia|]. f_equal. lia. }
      assert (IVF : forall D0 s0 rs0, inv F D0 s0 rs0 <-> inv Fl D0 s0 rs0).
      { intros. symmetry. apply inv_set_loops. }
      assert (DLL : forall x, dirty Fl ectx Dl x = true -> Dl x = true).
      { intros x Hx. unfold dirty in Hx. apply orb_true_iff in Hx as [Hx|Hx]; [assumption|].
        change (slot_of Fl x) with (slot_of F x) in Hx. unfold Dl, dirty. rewrite Hx. apply orb_true_r. }
      (* the loop result register *)
      assert (LOb : forall rsx, length rsx = length rs -> loop_ok st_cp rsx Dl body).
      { intros rsx LNx. unfold loop_ok. rewrite (ext_loops _ _ Ecp). unfold st_l. cbn [loops set_loops]. fold L.
        assert (LSI : l_start li = ip st1n) by reflexivity. assert (LRI : l_result li = o_reg res) by reflexivity.
        split; [lia|]. rewrite LRI. intros lr LR.
        destruct (RGP lr LR) as (A1 & A2 & A3). pose proof (ext_len _ _ E0e). pose proof (ext_tbase _ _ Ecp).
        pose proof (ext_len _ _ Ecp). pose proof (ext_len _ _ E1). pose proof (ext_len _ _ E1n).
        assert (nlocals st_l = nlocals st1n) by reflexivity. splits.
        - lia.
        - destruct A2 as [A2|A2]; [left; lia|right; lia].
        - intros x Sx. destruct (A3 x (ext_slot _ _ EcpF _ _ Sx)) as (B1 & B2 & B3). split; [assumption|].
          rewrite SA in B3. apply orb_false_elim in B3. tauto. }
      assert (DOb : forall rsx, length rsx = length rs -> dest_ok st_cp ectx rsx Dl body).
      { intros rsx LNx d Ed. unfold ectx in Ed. destruct (o_reg res) as [reg|] eqn:RR; cbn in Ed; inversion Ed; subst d.
        destruct (RGP reg eq_refl) as (A1 & A2 & A3). pose proof (ext_tbase _ _ Ecp).
        pose proof (ext_len _ _ Ecp). pose proof (ext_len _ _ E1). pose proof (ext_len _ _ E1n).
        assert (nlocals st_l = nlocals st1n) by reflexivity. splits.
        - lia.
        - destruct A2 as [A2|A2]; [left; lia|right; lia].
        - intros x Sx. destruct (A3 x (ext_slot _ _ EcpF _ _ Sx)) as (B1 & B2 & B3).
          rewrite SR in B2. rewrite SA in B3. apply orb_false_elim in B2. apply orb_false_elim in B3.
          apply fixed_ok_noRA; tauto. }
      set (POST := fun (rsk : regfile) (o : outcome) =>
        match o with
        | ONorm v s' => exists rs', star pool prog (ip st1n) rsk (ip st_e) rs' /\ length rs' = length rs /\
             inv F Dl s' rs' /\ (forall reg, o_reg res = Some reg -> get rs' reg = Some v) /\
             (forall kk, kk < tbase st + tcount st -> Some kk <> o_reg res ->
                (forall x, assigns x e = true -> slot_of st_e x <> Some kk) -> get rs' kk = get rs kk) /\
             (forall x, assigns x e = false -> s' x = s x)
        | OErr ce => stops pool prog (ip st1n) rsk (VFail ce)
        | OFuel => True
        | _ => False
        end).
      assert (KD : forall kk, Some kk <> o_reg res -> Some kk <> dest ectx).
      { intros kk K2. unfold ectx. destruct (o_reg res); cbn; [exact K2|discriminate]. }
      assert (SLe : forall x kk, slot_of st_e x <> Some kk -> slot_of st_b x <> Some kk).
      { intros x kk H0. change (slot_of st_e x) with (slot_of st_p x) in H0.
        eapply slot_ext_neq; [|exact H0]. eapply ext_trans; [apply ext_set_ip|exact Ep]. }
      assert (TBcp : tbase st_cp = tbase st) by (rewrite (ext_tbase _ _ Ecp); exact TBl).
      assert (ITER : forall k sk rsk last,
        length rsk = length rs -> inv F Dl sk rsk ->
        (cond <> None -> forall reg, o_reg res = Some reg -> get rsk reg = Some last) ->
        (forall kk, kk < tbase st + tcount st -> Some kk <> o_reg res ->
            (forall x, assigns x e = true -> slot_of st_e x <> Some kk) -> get rsk kk = get rs kk) ->
        (forall x, assigns x e = false -> sk x = s x) ->
        POST rsk (eval_loop (eval n) k cond body sk last)).
      { induction k as [|k IHk]; intros sk rsk last LNk IVk LASTk FRk SFk; [exact Logic.I|].
        cbn [eval_loop].
        assert (BODY : forall sb rsb, length rsb = length rs -> inv F Dl sb rsb ->
                  star pool prog (ip st1n) rsk (ip st_cp) rsb ->
                  (forall kk, kk < tbase st + tcount st -> Some kk <> o_reg res ->
                     (forall x, assigns x e = true -> slot_of st_e x <> Some kk) -> get rsb kk = get rs kk) ->
                  (forall x, assigns x e = false -> sb x = s x) ->
                  POST rsk (match eval n sb body with
                            | ONorm v s2 => eval_loop (eval n) k cond body s2 v
                            | OBrk v s2 => ONorm v s2
                            | OCont s2 => eval_loop (eval n) k cond body s2 VNull
                            | OErr c => OErr c
                            | OFuel => OFuel
                            end)).
        { intros sb rsb LNb IVb Sb FRb SFb.
          assert (RDb : forall x, Dl x = true -> reads x body = false).
          { intros x Hx. apply RDl in Hx. rewrite SR in Hx. apply orb_false_elim in Hx. tauto. }
          assert (Bb : tbase st_cp + tused st_b <= N.of_nat (length rsb)).
          { rewrite LNb, TBcp. change (tused st_e) with (tused st_p) in B. lia. }
          assert (IVb' : inv Fl Dl sb rsb) by (apply IVF; exact IVb).
          specialize (DYb n sb rsb Dl prog (ip st_e) Fl EbF WFl Kb IVb' RDb (DOb rsb LNb) (fun _ => LOb rsb LNb) Bb CAb).
          rewrite (ext_loops _ _ Ecp) in DYb. unfold st_l in DYb. cbn [loops set_loops] in DYb. fold L in DYb.
          assert (AB : forall x, assigns x body = true -> assigns x e = true).
          { intros x AX. rewrite SA, AX. apply orb_true_r. }
          assert (AF : forall x, assigns x e = false -> assigns x body = false).
          { intros x AX. rewrite SA in AX. apply orb_false_elim in AX. tauto. }
          assert (NEXT : forall v s2 rs2, length rs2 = length rsb ->
                    inv Fl (dirty Fl ectx Dl) s2 rs2 ->
                    star pool prog (ip st_cp) rsb (ip st1n) rs2 ->
                    (forall reg, o_reg res = Some reg -> get rs2 reg = Some v) ->
                    (forall kk, kk < tbase st_cp + tcount st_cp -> Some kk <> dest ectx -> Some kk <> o_reg res ->
                        (forall x, assigns x body = true -> slot_of st_b x <> Some kk) -> get rs2 kk = get rsb kk) ->
                    (forall x, assigns x body = false -> s2 x = sb x) ->
                    POST rsk (eval_loop (eval n) k cond body s2 v)).
          { intros v s2 rs2 LN2 IV2 S2 R2 FR2 SF2.
            assert (IV2' : inv F Dl s2 rs2).
            { apply IVF. eapply inv_weaken; [exact IV2|exact DLL]. }
            assert (P2 : POST rs2 (eval_loop (eval n) k cond body s2 v)).
            { apply IHk; auto.
              - lia.
              - intros kk K1 K2 K3. rewrite FR2;
                  [apply FRb; assumption| |apply KD; assumption|assumption|intros x AX; apply SLe; apply K3; auto].
                rewrite TBcp, TCcp, TCl. pose proof (wf_cnt _ W1).
                destruct RK as [(d & _ & _ & ->)|[(_ & _ & C)|(_ & _ & ->)]]; lia.
              - intros x AX. rewrite (SF2 _ (AF _ AX)). auto. }
            unfold POST in *. destruct (eval_loop (eval n) k cond body s2 v) as [v' s'|v' s'|s'|ce|]; auto.
            - destruct P2 as (rs' & A1 & A2 & A3 & A4 & A5 & A6). exists rs'. splits; auto.
              eapply star_trans; [exact Sb|]. eapply star_trans; [exact S2|exact A1].
            - eapply star_stops; [|exact P2]. eapply star_trans; [exact Sb|exact S2]. }
          unfold frame, frameL in DYb.
          destruct (eval n sb body) as [v s2|v s2|s2|ce|].
          - destruct DYb as (rs2 & S2 & LN2 & IV2 & R2 & FR2 & SF2 & FX2).
            apply NEXT with (rs2 := rs2); auto.
            + eapply star_trans; [exact S2|apply BACK].
            + intros reg RG. apply FX2. unfold ectx. rewrite RG. reflexivity.
          - destruct DYb as (rs2 & S2 & LN2 & IV2 & RL2 & FR2 & SF2).
            unfold POST. exists rs2. splits.
            + eapply star_trans; [exact Sb|exact S2].
            + lia.
            + apply IVF. eapply inv_weaken; [exact IV2|exact DLL].
            + intros reg RG. apply RL2. exact RG.
            + intros kk K1 K2 K3. rewrite FR2;
                [apply FRb; assumption| |apply KD; assumption|assumption|intros x AX; apply SLe; apply K3; auto].
              rewrite TBcp, TCcp, TCl. pose proof (wf_cnt _ W1).
              destruct RK as [(d & _ & _ & ->)|[(_ & _ & C)|(_ & _ & ->)]]; lia.
            + intros x AX. rewrite (SF2 _ (AF _ AX)). auto.
          - destruct DYb as (rs2 & S2 & LN2 & IV2 & RL2 & FR2 & SF2).
            apply NEXT with (rs2 := rs2); auto.
          - unfold POST. eapply star_stops; [exact Sb|exact DYb].
          - exact Logic.I. }
        destruct cond as [[c neg]|] eqn:CND.
        - (* the condition *)
          destruct HCO as (co & st_c & creg & cp & HM & OC & HPI & ->).
          destruct HJ as (OFFJ & ->).
          destruct (WFc c neg eq_refl) as (NEc & WFcc).
          destruct (Qc c neg eq_refl WFcc RAny st_l co st_c c_cond HM Wl Drc) as ((Ic & Ec & Wc & SHc) & DYc).
          assert (SHc' : shape st_l RAny co st_c c).
          { unfold shapeQ in SHc. destruct (is_jump c) eqn:J; [apply is_jump_esc in J; congruence|exact SHc]. }
          assert (EcF : ext st_c Fl).
          { eapply ext_trans; [|exact EcpF]. apply pop_if_inv in HPI; [|apply wfst_set_ip; assumption].
            destruct HPI as (_ & _ & _ & _ & _ & E2 & _). eapply ext_trans; [apply ext_set_ip|exact E2]. }
          assert (RDc : forall x, Dl x = true -> reads x c = false).
          { intros x Hx. apply RDl in Hx. rewrite SR in Hx. apply orb_false_elim in Hx. cbn in Hx. tauto. }
          assert (LOc : esc c = true -> loop_ok st_l rsk Dl c) by (intros; congruence).
          assert (Bc : tbase st_l + tused st_c <= N.of_nat (length rsk)).
          { rewrite LNk, TBl. pose proof (ext_used _ _ EcF). pose proof (ext_used _ _ EpF).
            change (tused st_e) with (tused st_p) in B.
            assert (tused st_c <= tused st_p).
            { apply pop_if_inv in HPI; [|apply wfst_set_ip; assumption].
              destruct HPI as (_ & _ & _ & _ & U2 & _). pose proof (ext_used _ _ Eb). pose proof (ext_used _ _ Ep).
              cbn [tused set_ip] in *. lia. }
            lia. }
          assert (IVk' : inv Fl Dl sk rsk) by (apply IVF; exact IVk).
          cbn [cexpr] in Kc.
          specialize (DYc n sk rsk Dl prog (ip st_e) Fl EcF WFl Kc IVk' RDc (dest_ok_any _ _ _ _) LOc Bc CAc).
          pose proof (sem_no_esc n c sk NEc) as NJ.
          destruct (eval n sk c) as [vc s1| | | |]; try contradiction; [|exact DYc|exact Logic.I].
          destruct DYc as (rs1 & S1 & LN1 & IV1 & R1 & FR1 & SF1 & _).
          specialize (R1 _ OC).
          assert (IV1' : inv F Dl s1 rs1).
          { apply IVF. eapply inv_weaken; [exact IV1|]. intros x Hx. unfold dirty in Hx. cbn in Hx.
            rewrite orb_false_r in Hx. exact Hx. }
          assert (AC : forall x, assigns x c = true -> assigns x e = true).
          { intros x AX. rewrite SA. cbn. rewrite AX. reflexivity. }
          assert (AFc : forall x, assigns x e = false -> assigns x c = false).
          { intros x AX. rewrite SA in AX. apply orb_false_elim in AX. cbn in AX. tauto. }
          assert (SLc : forall x kk, slot_of st_e x <> Some kk -> slot_of st_c x <> Some kk).
          { intros x kk H0. eapply slot_ext_neq; [|apply SLe; exact H0].
            apply pop_if_inv in HPI; [|apply wfst_set_ip; assumption].
            destruct HPI as (_ & _ & _ & _ & _ & E2 & _).
            eapply ext_trans; [apply ext_set_ip|]. eapply ext_trans; [exact E2|exact Eb]. }
          assert (FR1k : forall kk, kk < tbase st + tcount st -> Some kk <> o_reg res ->
                     (forall x, assigns x e = true -> slot_of st_e x <> Some kk) -> get rs1 kk = get rs kk).
          { intros kk K1 K2 K3. rewrite FR1; [apply FRk; assumption| |cbn; discriminate|intros x AX; apply SLc; apply K3; auto].
            rewrite TBl, TCl. pose proof (wf_cnt _ W1).
            destruct RK as [(d & _ & _ & ->)|[(_ & _ & C)|(_ & _ & ->)]]; lia. }
          assert (SF1k : forall x, assigns x e = false -> s1 x = s x).
          { intros x AX. rewrite (SF1 _ (AFc _ AX)). auto. }
          (* the result register survives the condition *)
          assert (LAST1 : forall reg, o_reg res = Some reg -> get rs1 reg = Some last).
          { intros reg RG. rewrite <- (LASTk ltac:(discriminate) reg RG).
            destruct (RGP reg RG) as (A1 & A2 & A3). apply FR1.
            - rewrite TBl, TCl. destruct A2 as [A2|A2]; [pose proof (wf_len _ W); lia|lia].
            - cbn. discriminate.
            - intros x AX SX. destruct (A3 x (ext_slot _ _ EcF _ _ SX)) as (_ & _ & B3).
              rewrite (AC _ AX) in B3. discriminate. }
          assert (CAJ : code_at prog (ip st_c)
                          [if neg then IJumpIfTrue creg (ip st_e - (ip st_c + 4))
                           else IJumpIfFalse creg (ip st_e - (ip st_c + 4))]).
          { apply (cares_one _ brk); [destruct neg; reflexivity|].
            match type of CAj with cares _ _ ?pc _ => assert (EQ : pc = ip st_c) by (rewrite IPl in Ic; lia) end.
            rewrite EQ in CAj. exact CAj. }
          pose proof (istep_at pool _ _ _ rs1 CAJ) as STJ.
          assert (IPc4 : ip st_cp = ip st_c + 4).
          { apply pop_if_inv in HPI; [|apply wfst_set_ip; assumption].
            destruct HPI as (_ & I2 & _). cbn [ip set_ip] in I2. exact I2. }
          assert (GEe : ip st_c + 4 <= ip st_e) by lia.
          destruct (xorb (truthy vc) neg) eqn:XR.
          + (* into the body *)
            apply (BODY s1 rs1); auto.
            * lia.
            * eapply star_trans; [exact S1|]. apply star_one. rewrite STJ.
              destruct neg; cbn [exec size]; unfold with_reg; rewrite R1;
                destruct (truthy vc); cbn in XR; try discriminate; f_equal; lia.
          + (* the loop ends with the last value *)
            unfold POST. exists rs1. splits; auto.
            * eapply star_trans; [exact S1|]. apply star_one. rewrite STJ.
              destruct neg; cbn [exec size]; unfold with_reg; rewrite R1;
                destruct (truthy vc); cbn in XR; try discriminate; f_equal; lia.
            * lia.
        - destruct HCO as (-> & -> & ->). subst c_jump. apply (BODY sk rsk); auto. constructor. }
      (* entering the loop: the SetNull of a conditional loop *)
      assert (INIT : exists rs0, star pool prog (ip st) rs (ip st1n) rs0 /\ length rs0 = length rs /\
                 inv F Dl s rs0 /\
                 (cond <> None -> forall reg, o_reg res = Some reg -> get rs0 reg = Some VNull) /\
                 (forall kk, Some kk <> o_reg res -> get rs0 kk = get rs kk)).
      { assert (IVD : inv F Dl s rs).
        { eapply inv_weaken; [exact IV|]. intros. apply dirty_mono. assumption. }
        destruct EM as [(reg & CN & RG & -> & ->)|(CN & -> & ->)].
        - destruct (RGP reg RG) as (A1 & A2 & A3).
          destruct (set_ok rs reg VNull A1) as (rs0 & SET).
          cbn [app] in CAn. apply cares_one in CAn; [|reflexivity].
          exists rs0. splits.
          + cbn [ip set_ip]. rewrite I1. apply star_one. rewrite (istep_at _ _ _ _ rs CAn). cbn [exec size].
            unfold put. rewrite SET. reflexivity.
          + eapply set_length; eauto.
          + eapply (inv_setF st); eauto.
            destruct A2 as [A2|[A2 _]]; [right|left; assumption]. split; [assumption|].
            intros x Sx. apply (A3 x Sx).
          + intros _ reg0 RG0. rewrite RG in RG0. inversion RG0; subst. eapply get_set_same; eauto.
          + intros kk K2. eapply get_set_other; eauto. congruence.
        - exists rs. splits; auto.
          + rewrite I1. constructor.
          + intros CN0 reg RG. destruct CN as [CN|CN]; congruence. }
      destruct INIT as (rs0 & S0 & LN0 & IV0 & LAST0 & FR0).
      specialize (ITER n s rs0 VNull LN0 IV0 LAST0 (fun kk _ K2 _ => FR0 kk K2) (fun _ _ => eq_refl)).
      unfold POST in ITER.
      assert (KR : forall kk, kk < tbase st + tcount st -> Some kk <> dest r -> Some kk <> o_reg res).
      { intros kk K1 K2. destruct RK as [(d & -> & RR & ->)|[(-> & RR & C)|(-> & RR & ->)]]; rewrite RR.
        - exact K2.
        - intros E0. inversion E0. lia.
        - discriminate. }
      destruct (eval_loop (eval n) n cond body s VNull) as [v s'|v s'|s'|ce|]; try contradiction; auto.
      + destruct ITER as (rs' & A1 & A2 & A3 & A4 & A5 & A6). exists rs'. splits; auto.
        * eapply star_trans; [exact S0|exact A1].
        * eapply inv_weaken; [exact A3|]. intros x Hx. unfold Dl in Hx.
          destruct RK as [(d & -> & RR & ->)|[(-> & RR & C)|(-> & RR & ->)]]; unfold ectx in Hx; rewrite RR in Hx;
            cbn [fixed_or_none] in Hx.
          -- exact Hx.
          -- eapply (dirty_absorbF st); eauto. right. split; [reflexivity|lia].
          -- exact Hx.
        * intros kk K1 K2 K3. apply A5; auto.
        * intros d ->. apply A4. destruct SH as (-> & _). reflexivity.
      + eapply star_stops; [exact S0|exact ITER].
  Qed.

  Lemma whileQ : forall c b, Q pool c -> Q pool b -> Q pool (EWhile c b).
  Proof.
    intros c b Qc Qb. apply (loopQ_gen (EWhile c b) (Some (c, false)) b); auto.
    - intros WF. cbn [wf_expr] in WF. apply andb_prop in WF as [WF WFb]. apply andb_prop in WF as [NE WFc].
      apply negb_true_iff in NE. split; [|assumption]. intros c0 neg E. inversion E; subst. auto.
    - intros c0 neg E. inversion E; subst. assumption.
  Qed.

  Lemma untilQ : forall c b, Q pool c -> Q pool b -> Q pool (EUntil c b).
  Proof.
    intros c b Qc Qb. apply (loopQ_gen (EUntil c b) (Some (c, true)) b); auto.
    - intros WF. cbn [wf_expr] in WF. apply andb_prop in WF as [WF WFb]. apply andb_prop in WF as [NE WFc].
      apply negb_true_iff in NE. split; [|assumption]. intros c0 neg E. inversion E; subst. auto.
    - intros c0 neg E. inversion E; subst. assumption.
  Qed.

  Lemma loopQ : forall b, Q pool b -> Q pool (ELoop b).
  Proof.
    intros b Qb. apply (loopQ_gen (ELoop b) None b); auto.
    - intros WF. cbn [wf_expr] in WF. split; [|assumption]. intros c0 neg E. discriminate.
    - intros c0 neg E. discriminate.
  Qed.
End SimL.
