(* Model of koto_runtime::KotoVm (crates/runtime/src/vm.rs) for the instructions Core-0 compiles to:
   KotoVm::run on a fresh VM (register 0 = instance = Null), execute_instructions /
   execute_instruction on a register vector, instruction_reader.rs decoding at the ip.
   NO PROOFS here. *)
From Coq Require Import ZArith NArith List Bool.
From KV.comp Require Import Ast0 Instr0 Comp0.
Import ListNotations.
Open Scope N_scope.

Definition regfile := list value.

Definition get (rs : regfile) (r : N) : option value := nth_error rs (N.to_nat r).
Definition set (rs : regfile) (r : N) (v : value) : option regfile :=
  if r <? N.of_nat (length rs) then Some (set_nth rs (N.to_nat r) v) else None.

(* Vec::resize(n, Null) *)
Fixpoint resize (rs : regfile) (n : nat) : regfile :=
  match n with
  | O => []
  | S n => match rs with
           | [] => VNull :: resize [] n
           | v :: r => v :: resize r n
           end
  end.

Inductive vmres :=
| VDone (v : value)
| VFail (c : err)
| VPanic                 (* out-of-bounds register / constant, ip underflow *)
| VBad                   (* undecodable instruction *)
| VTimeout.

Inductive stepres :=
| SNext (pc : N) (rs : regfile)
| SStop (r : vmres).

Definition with_reg (rs : regfile) (r : N) (k : value -> stepres) : stepres :=
  match get rs r with Some v => k v | None => SStop VPanic end.
Definition put (rs : regfile) (r : N) (v : value) (next : N) : stepres :=
  match set rs r v with Some rs' => SNext next rs' | None => SStop VPanic end.
Definition put_res (rs : regfile) (r : N) (x : value + err) (next : N) : stepres :=
  match x with inl v => put rs r v next | inr c => SStop (VFail c) end.

Definition const_int (consts : list pentry) (c : N) : option Z :=
  match nth_error consts (N.to_nat c) with Some (PInt z) => Some z | _ => None end.

(* execute_instruction; [next] = reader.ip after decoding *)
Definition exec (consts : list pentry) (i : instr) (next : N) (rs : regfile) : stepres :=
  match i with
  | INewFrame n => SNext next (resize rs (N.to_nat n))
  | ICopy t s => with_reg rs s (fun v => put rs t v next)
  | ISetNull r => put rs r VNull next
  | ISetFalse r => put rs r (VBool false) next
  | ISetTrue r => put rs r (VBool true) next
  | ISet0 r => put rs r (VInt 0) next
  | ISet1 r => put rs r (VInt 1) next
  | ISetU8 r n => put rs r (VInt (Z.of_N n)) next
  | ISetNegU8 r n => put rs r (VInt (- Z.of_N n)) next
  | ILoadInt r c =>
    match const_int consts c with
    | Some z => put rs r (VInt z) next
    | None => SStop VPanic
    end
  | INegate r v => with_reg rs v (fun x => put_res rs r (negate x) next)
  | INot r v => with_reg rs v (fun x => put rs r (VBool (negb (truthy x))) next)
  | IArith o r a b =>
    with_reg rs a (fun x => with_reg rs b (fun y => put_res rs r (arith o x y) next))
  | IArithAssign o l r =>
    with_reg rs l (fun x => with_reg rs r (fun y => put_res rs l (arith o x y) next))
  | ICmp o r a b =>
    with_reg rs a (fun x => with_reg rs b (fun y => put_res rs r (compare o x y) next))
  | IJump off => SNext (next + off) rs
  | IJumpBack off => if next <? off then SStop VPanic else SNext (next - off) rs
  | IJumpIfFalse r off =>
    with_reg rs r (fun x => SNext (if truthy x then next else next + off) rs)
  | IJumpIfTrue r off =>
    with_reg rs r (fun x => SNext (if truthy x then next + off else next) rs)
  | IReturn r => with_reg rs r (fun x => SStop (VDone x))
  | IHole _ => SStop VBad
  end.

(* ---- the VM on bytes (what the real VM runs) *)
Definition step (ch : chunk) (pc : N) (rs : regfile) : stepres :=
  let bs := skipn (N.to_nat pc) (ch_bytes ch) in
  match bs with
  | _ :: _ :: _ =>
    match decode bs with
    | Some (i, n) => exec (ch_consts ch) i (pc + n) rs
    | None => SStop VBad
    end
  | _ => SStop (VDone VNull)          (* reader.next() = None: execute_instructions returns Null *)
  end.

Fixpoint run_from (n : nat) (ch : chunk) (pc : N) (rs : regfile) : vmres :=
  match n with
  | O => VTimeout
  | S n => match step ch pc rs with
           | SNext pc' rs' => run_from n ch pc' rs'
           | SStop r => r
           end
  end.

(* KotoVm::run on a fresh VM: registers = [Null] (the instance register), ip = 0 *)
Definition run (n : nat) (ch : chunk) : vmres := run_from n ch 0 [VNull].

(* ---- the same machine on a list of instructions addressed by byte offset (used by the proofs) *)
Fixpoint instr_at (c : code) (pc : N) : option instr :=
  match c with
  | [] => None
  | i :: r => if pc =? 0 then Some i else if pc <? size i then None else instr_at r (pc - size i)
  end.

Definition istep (consts : list pentry) (c : code) (pc : N) (rs : regfile) : stepres :=
  match instr_at c pc with
  | Some i => exec consts i (pc + size i) rs
  | None => SStop VBad
  end.

Fixpoint irun_from (n : nat) (consts : list pentry) (c : code) (pc : N) (rs : regfile) : vmres :=
  match n with
  | O => VTimeout
  | S n => match istep consts c pc rs with
           | SNext pc' rs' => irun_from n consts c pc' rs'
           | SStop r => r
           end
  end.
