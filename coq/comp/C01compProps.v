(* Pinned statements of the compiler-correctness component of C01 (unit comp).

   comp_correct is the FULL statement of DESIGN.md C01 item 3 for Core-0 (integer literals incl.
   pooled constants, true / false / null, locals, parentheses, unary - and not, + - *, the six
   comparisons incl. chains, and / or, x = e, x op= e, blocks, if / else if / else, while / until /
   loop, break [e], continue, the script's final expression as result):
   for every program outside the decidable class known_C01 (the genuine defects K1a-c) and inside
   wf0 (break / continue travel only through statement positions), the code the compiler model emits
   -- byte-identical to koto_bytecode's on every generated case -- run by the VM model on the bytes
   gives exactly the value / the error class of the reference semantics.
   Its core is the generalised lemma comp_expr_context_independent (SimAll.sim_all, statement Q in
   SimQ.v): every expression, every compile context, every result mode. *)
From Coq Require Import ZArith NArith List Bool.
From KV.comp Require Import Ast0 Sem0 Instr0 Comp0 VM0 Known0 InstrLemmas CompLemmas SimBase SimExpr SimQ SimAll SimProg.
Import ListNotations.
Open Scope N_scope.

(* every program of the fragment outside the known class: the real compiler's code (model Comp0,
   byte-identical to koto_bytecode on every generated case) run by the VM (model VM0 on the bytes)
   gives exactly the value / the error class of the reference semantics *)
Theorem comp_correct : forall p fuel ch,
  wf0 p = true -> known_C01 p = false ->
  compile p = OK ch ->
  match Sem0.run fuel p with
  | Done v => exists n, VM0.run n ch = VDone v
  | Failed c => exists n, VM0.run n ch = VFail c
  | _ => True
  end.
Proof. exact comp_correct_all. Qed.
Print Assumptions comp_correct.

(* "The outcome of an expression does not depend on the code that surrounds it": for every
   expression e, every compile state (any assigned / reserved locals, any number of live
   temporaries, any enclosing loop), every result mode None / Any / Fixed r and every set D of
   half-written variables e does not read: the emitted code, run from a register file that agrees
   with the environment, ends at the end of the code in a register file that agrees again, with
   Sem0's value in the designated register and every other live register untouched -- or takes the
   break / continue edge of the enclosing loop with the loop's result register set -- or stops with
   Sem0's error (Q = compile-time facts + this run-time statement, SimQ.v). *)
Theorem comp_expr_context_independent : forall pool e, Q pool e.
Proof. intros pool e. apply sim_all. Qed.
Print Assumptions comp_expr_context_independent.

(* K1 on the faithful model: `x = 5; y = true; x = y and x; x` *)
Definition k1_witness : program :=
  [EAssign 0 (EInt 5); EAssign 1 (EBool true); EAssign 0 (ELogic LAnd (EId 1) (EId 0)); EId 0].
(* operand aliasing: `x = 3; x + (x = 5)` *)
Definition k1b_witness : program :=
  [EAssign 0 (EInt 3); EArith OAdd (EId 0) (ENested (EAssign 0 (EInt 5)))].
(* discarded operator: `1 + true; 7` *)
Definition k1c_witness : program := [EArith OAdd (EInt 1) (EBool true); EInt 7].
(* a middle operand of a chain that lives in the result register: `x = 0; x = 1 < (x = 3) < 5; x` *)
Definition k1d_witness : program :=
  [EAssign 0 (EInt 0);
   EAssign 0 (ECmp CLt (EInt 1) (ECmp CLt (ENested (EAssign 0 (EInt 3))) (EInt 5))); EId 0].
(* a loop assigned to a variable it reads: `x = 0; x = while x < 3 (x += 1); x` *)
Definition k1e_witness : program :=
  [EAssign 0 (EInt 0);
   EAssign 0 (EWhile (ECmp CLt (EId 0) (EInt 3)) (EBlock [EOpAssign OAdd 0 (EInt 1)])); EId 0].

Theorem comp_correct_refuted :
  (wf0 k1_witness = true /\ known_C01 k1_witness = true /\
   Sem0.run 10 k1_witness = Done (VInt 5) /\
   exists ch, compile k1_witness = OK ch /\ VM0.run 100 ch = VDone (VBool true)) /\
  (wf0 k1b_witness = true /\ known_C01 k1b_witness = true /\
   Sem0.run 10 k1b_witness = Done (VInt 8) /\
   exists ch, compile k1b_witness = OK ch /\ VM0.run 100 ch = VDone (VInt 10)) /\
  (wf0 k1c_witness = true /\ known_C01 k1c_witness = true /\
   Sem0.run 10 k1c_witness = Failed ErrBinop /\
   exists ch, compile k1c_witness = OK ch /\ VM0.run 100 ch = VDone (VInt 7)) /\
  (wf0 k1d_witness = true /\ known_C01 k1d_witness = true /\
   Sem0.run 10 k1d_witness = Done (VBool true) /\
   exists ch, compile k1d_witness = OK ch /\ VM0.run 100 ch = VFail ErrBinop) /\
  (wf0 k1e_witness = true /\ known_C01 k1e_witness = true /\
   Sem0.run 20 k1e_witness = Done (VInt 3) /\
   exists ch, compile k1e_witness = OK ch /\ VM0.run 100 ch = VFail ErrBinop).
Proof.
  splits;
    try match goal with |- exists ch, compile ?p = OK ch /\ _ =>
      let c := eval vm_compute in (compile p) in
      match c with OK ?ch => exists ch; split end end;
    vm_compute; reflexivity.
Qed.
Print Assumptions comp_correct_refuted.

(* the byte-level VM (decode at ip, execute) follows the instruction-level machine of the proofs *)
Theorem vm_bytes_refines_instrs : forall prog consts n pc rs r,
  forallb wf_instr prog = true ->
  irun_from n consts prog pc rs = r -> r <> VBad ->
  run_from n (mkChunk (encode_code prog) consts) pc rs = r.
Proof. exact run_refines. Qed.
Print Assumptions vm_bytes_refines_instrs.

Theorem decode_encode : forall i rest, wf_instr i = true ->
  decode (encode i ++ rest) = Some (i, size i).
Proof. exact decode_encode_app. Qed.
Print Assumptions decode_encode.

(* ---- non-vacuity *)
Example nonvacuous_theorem_applies :
  let p := [EAssign 0 (EInt 9223372036854775807); EAssign 1 (EArith OAdd (EId 0) (EInt 1));
            EAssign 0 (ELogic LOr (EId 1) (EInt 3)); EArith OMul (EId 0) (EInt 2)] in
  wf0 p = true /\ known_C01 p = false /\
  Sem0.run 10 p = Done (VInt 0) /\
  exists ch, compile p = OK ch /\ VM0.run 100 ch = VDone (VInt 0).
Proof.
  cbv zeta. splits;
    try match goal with |- exists ch, compile ?p = OK ch /\ _ =>
      let c := eval vm_compute in (compile p) in
      match c with OK ?ch => exists ch; split end end;
    vm_compute; reflexivity.
Qed.

Example nonvacuous_loops :
  let p := [EAssign 0 (EInt 0); EAssign 1 (EInt 0);
            EAssign 2 (EWhile (ECmp CLt (EId 0) (EInt 10))
              (EBlock [EOpAssign OAdd 0 (EInt 1);
                       EIf (ECmp CEq (EId 0) (EInt 3)) (EBlock [EContinue]) [] None;
                       EIf (ECmp CGt (EId 0) (EInt 6)) (EBlock [EBreak (Some (EArith OMul (EId 0) (EInt 100)))]) [] None;
                       EOpAssign OAdd 1 (EId 0)]));
            EArith OAdd (EId 1) (EId 2)] in
  wf0 p = true /\ known_C01 p = false /\
  Sem0.run 30 p = Done (VInt 718) /\
  exists ch, compile p = OK ch /\ VM0.run 400 ch = VDone (VInt 718).
Proof.
  cbv zeta. splits;
    try match goal with |- exists ch, compile ?p = OK ch /\ _ =>
      let c := eval vm_compute in (compile p) in
      match c with OK ?ch => exists ch; split end end;
    vm_compute; reflexivity.
Qed.

Example wrap_add_example : arith OAdd (VInt 9223372036854775807) (VInt 1) = inl (VInt (-9223372036854775808)).
Proof. vm_compute. reflexivity. Qed.

Example type_error_both_sides :
  let p := [EArith OAdd (EInt 1) (EBool true)] in
  known_C01 p = false /\ Sem0.run 10 p = Failed ErrBinop /\
  exists ch, compile p = OK ch /\ VM0.run 100 ch = VFail ErrBinop.
Proof.
  cbv zeta. splits;
    try match goal with |- exists ch, compile ?p = OK ch /\ _ =>
      let c := eval vm_compute in (compile p) in
      match c with OK ?ch => exists ch; split end end;
    vm_compute; reflexivity.
Qed.
