(* Pinned statements of the compiler-correctness component of C01 (unit comp).

   FULL STATEMENT aimed at (DESIGN.md C01, item 3) -- for every Core-0 program:
     Theorem comp_correct : forall p fuel ch r,
       wf0 p = true -> known_C01 p = false -> compile p = OK ch -> length (ch_bytes ch) <= 65535 ->
       Sem0.run fuel p = Done r -> exists n, VM0.run n ch = VDone r      (and Failed c -> VFail c).
   PROVED HERE: the same statement for the fragment [frag] of Core-0 (literals incl. pooled integer
   constants, identifiers, parentheses, + - *, and/or, x = e, statement sequences), i.e. without
   unary operators, comparisons / chains, x op= e, if, loops, break, continue (for those the models
   Sem0 / Comp0 / VM0 are complete and tied to the implementation by checks/c01_comp.py, but the
   simulation cases are not proved): comp_correct_partial.  Its core is the generalised lemma
   comp_expr_context_independent (SimExpr.sim_expr). *)
From Coq Require Import ZArith NArith List Bool.
From KV.comp Require Import Ast0 Sem0 Instr0 Comp0 VM0 Known0 InstrLemmas CompLemmas SimBase SimExpr SimQ SimAll SimProg.
Import ListNotations.
Open Scope N_scope.

(* every program of the fragment outside the known class: the real compiler's code (model Comp0,
   byte-identical to koto_bytecode on every generated case) run by the VM (model VM0 on the bytes)
   gives exactly the value / the error class of the reference semantics *)
Theorem comp_correct_partial : forall p fuel ch,
  all_list frag p = true -> wf0 p = true -> known_C01 p = false ->
  compile p = OK ch ->
  match Sem0.run fuel p with
  | Done v => exists n, VM0.run n ch = VDone v
  | Failed c => exists n, VM0.run n ch = VFail c
  | _ => True
  end.
Proof. exact comp_correct_frag. Qed.
Print Assumptions comp_correct_partial.

(* "The outcome of an expression does not depend on the code that surrounds it": for every
   expression of the fragment, every compile state (any assigned / reserved locals, any number of
   live temporaries, any enclosing loop), every result mode None / Any / Fixed r and every set D of
   half-written variables the expression does not read: the emitted code, run from a register file
   that agrees with the environment, ends at the end of the code in a register file that agrees
   again, with Sem0's value in the designated register and every other live register untouched --
   or takes the break / continue edge of the enclosing loop with the loop's result register set --
   or stops with Sem0's error (Q = compile-time facts + this run-time statement, SimQ.v). *)
Theorem comp_expr_context_independent : forall pool e, frag e = true -> Q pool e.
Proof. intros pool e F. apply sim_all. exact F. Qed.
Print Assumptions comp_expr_context_independent.

(* K1 on the faithful model: `x = 5; y = true; x = y and x; x` *)
Definition k1_witness : program :=
  [EAssign 0 (EInt 5); EAssign 1 (EBool true); EAssign 0 (ELogic LAnd (EId 1) (EId 0)); EId 0].
(* operand aliasing: `x = 3; x + (x = 5)` *)
Definition k1b_witness : program :=
  [EAssign 0 (EInt 3); EArith OAdd (EId 0) (ENested (EAssign 0 (EInt 5)))].
(* discarded operator: `1 + true; 7` *)
Definition k1c_witness : program := [EArith OAdd (EInt 1) (EBool true); EInt 7].

Theorem comp_correct_refuted :
  (all_list frag k1_witness = true /\ known_C01 k1_witness = true /\
   Sem0.run 10 k1_witness = Done (VInt 5) /\
   exists ch, compile k1_witness = OK ch /\ VM0.run 100 ch = VDone (VBool true)) /\
  (all_list frag k1b_witness = true /\ known_C01 k1b_witness = true /\
   Sem0.run 10 k1b_witness = Done (VInt 8) /\
   exists ch, compile k1b_witness = OK ch /\ VM0.run 100 ch = VDone (VInt 10)) /\
  (all_list frag k1c_witness = true /\ known_C01 k1c_witness = true /\
   Sem0.run 10 k1c_witness = Failed ErrBinop /\
   exists ch, compile k1c_witness = OK ch /\ VM0.run 100 ch = VDone (VInt 7)).
Proof.
  splits;
    try match goal with |- exists ch, compile ?p = OK ch /\ _ =>
      let c := eval vm_compute in (compile p) in
      match c with OK ?ch => exists ch; split end end;
    vm_compute; reflexivity.
Qed.
Print Assumptions comp_correct_refuted.

(* the byte-level VM (decode at ip, execute) follows the instruction-level machine of the proofs *)
Theorem vm_bytes_refines_instrs : forall prog consts n pc rs r,
  forallb wf_instr prog = true ->
  irun_from n consts prog pc rs = r -> r <> VBad ->
  run_from n (mkChunk (encode_code prog) consts) pc rs = r.
Proof. exact run_refines. Qed.
Print Assumptions vm_bytes_refines_instrs.

Theorem decode_encode : forall i rest, wf_instr i = true ->
  decode (encode i ++ rest) = Some (i, size i).
Proof. exact decode_encode_app. Qed.
Print Assumptions decode_encode.

(* ---- non-vacuity *)
Example nonvacuous_theorem_applies :
  let p := [EAssign 0 (EInt 9223372036854775807); EAssign 1 (EArith OAdd (EId 0) (EInt 1));
            EAssign 0 (ELogic LOr (EId 1) (EInt 3)); EArith OMul (EId 0) (EInt 2)] in
  all_list frag p = true /\ wf0 p = true /\ known_C01 p = false /\
  Sem0.run 10 p = Done (VInt 0) /\
  exists ch, compile p = OK ch /\ VM0.run 100 ch = VDone (VInt 0).
Proof.
  cbv zeta. splits;
    try match goal with |- exists ch, compile ?p = OK ch /\ _ =>
      let c := eval vm_compute in (compile p) in
      match c with OK ?ch => exists ch; split end end;
    vm_compute; reflexivity.
Qed.

Example wrap_add_example : arith OAdd (VInt 9223372036854775807) (VInt 1) = inl (VInt (-9223372036854775808)).
Proof. vm_compute. reflexivity. Qed.

Example type_error_both_sides :
  let p := [EArith OAdd (EInt 1) (EBool true)] in
  known_C01 p = false /\ Sem0.run 10 p = Failed ErrBinop /\
  exists ch, compile p = OK ch /\ VM0.run 100 ch = VFail ErrBinop.
Proof.
  cbv zeta. splits;
    try match goal with |- exists ch, compile ?p = OK ch /\ _ =>
      let c := eval vm_compute in (compile p) in
      match c with OK ?ch => exists ch; split end end;
    vm_compute; reflexivity.
Qed.
