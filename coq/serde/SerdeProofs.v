(* C20 — proofs about the serde mapping model. *)
From Coq Require Import ZArith List Bool Lia.
From KV.serde Require Import SerdeModel SerdeSpec.
Import ListNotations.
Open Scope Z_scope.

(* ------------------------------------------------------------------ induction principles *)

Section KvInd.
  Variable P : kvalue -> Prop.
  Hypothesis HNull : P KNull.
  Hypothesis HBool : forall b, P (KBool b).
  Hypothesis HNum : forall n, P (KNum n).
  Hypothesis HStr : forall s, P (KStr s).
  Hypothesis HList : forall l, Forall P l -> P (KList l).
  Hypothesis HTuple : forall l, Forall P l -> P (KTuple l).
  Hypothesis HMap : forall es, Forall (fun kv => P (fst kv) /\ P (snd kv)) es -> P (KMap es).
  Hypothesis HRange : P KRange.

  Fixpoint kvalue_ind' (v : kvalue) : P v :=
    match v with
    | KNull => HNull
    | KBool b => HBool b
    | KNum n => HNum n
    | KStr s => HStr s
    | KList l => HList l ((fix go l : Forall P l :=
                             match l with [] => Forall_nil _ | x :: r => Forall_cons _ (kvalue_ind' x) (go r) end) l)
    | KTuple l => HTuple l ((fix go l : Forall P l :=
                               match l with [] => Forall_nil _ | x :: r => Forall_cons _ (kvalue_ind' x) (go r) end) l)
    | KMap es => HMap es ((fix go l : Forall (fun kv => P (fst kv) /\ P (snd kv)) l :=
                             match l with
                             | [] => Forall_nil _
                             | (k, x) :: r => Forall_cons (k, x) (conj (kvalue_ind' k) (kvalue_ind' x)) (go r)
                             end) es)
    | KRange => HRange
    end.
End KvInd.

Section DmInd.
  Variable P : dm -> Prop.
  Hypothesis HUnit : P DUnit.
  Hypothesis HBool : forall b, P (DBool b).
  Hypothesis HInt : forall k z, P (DInt k z).
  Hypothesis HF32 : forall b, P (DF32 b).
  Hypothesis HF64 : forall b, P (DF64 b).
  Hypothesis HChar : forall c, P (DChar c).
  Hypothesis HStr : forall s, P (DStr s).
  Hypothesis HBytes : forall l, P (DBytes l).
  Hypothesis HNone : P DNone.
  Hypothesis HSome : forall d, P d -> P (DSome d).
  Hypothesis HUStruct : P DUStruct.
  Hypothesis HNStruct : forall d, P d -> P (DNStruct d).
  Hypothesis HSeq : forall l, Forall P l -> P (DSeq l).
  Hypothesis HTuple : forall l, Forall P l -> P (DTuple l).
  Hypothesis HTStruct : forall l, Forall P l -> P (DTStruct l).
  Hypothesis HMap : forall es, Forall (fun kv => P (fst kv) /\ P (snd kv)) es -> P (DMap es).
  Hypothesis HStruct : forall fs, Forall (fun kv => P (snd kv)) fs -> P (DStruct fs).
  Hypothesis HUVar : forall n, P (DUVar n).
  Hypothesis HNVar : forall n d, P d -> P (DNVar n d).
  Hypothesis HTVar : forall n l, Forall P l -> P (DTVar n l).
  Hypothesis HSVar : forall n fs, Forall (fun kv => P (snd kv)) fs -> P (DSVar n fs).

  Fixpoint dm_ind' (d : dm) : P d :=
    let go := fix go l : Forall P l :=
                match l with [] => Forall_nil _ | x :: r => Forall_cons _ (dm_ind' x) (go r) end in
    let gof := fix gof (l : list (str * dm)) : Forall (fun kv => P (snd kv)) l :=
                 match l with [] => Forall_nil _ | (n, x) :: r => Forall_cons (n, x) (dm_ind' x) (gof r) end in
    match d with
    | DUnit => HUnit
    | DBool b => HBool b
    | DInt k z => HInt k z
    | DF32 b => HF32 b
    | DF64 b => HF64 b
    | DChar c => HChar c
    | DStr s => HStr s
    | DBytes l => HBytes l
    | DNone => HNone
    | DSome d' => HSome d' (dm_ind' d')
    | DUStruct => HUStruct
    | DNStruct d' => HNStruct d' (dm_ind' d')
    | DSeq l => HSeq l (go l)
    | DTuple l => HTuple l (go l)
    | DTStruct l => HTStruct l (go l)
    | DMap es => HMap es ((fix gom l : Forall (fun kv => P (fst kv) /\ P (snd kv)) l :=
                             match l with
                             | [] => Forall_nil _
                             | (k, x) :: r => Forall_cons (k, x) (conj (dm_ind' k) (dm_ind' x)) (gom r)
                             end) es)
    | DStruct fs => HStruct fs (gof fs)
    | DUVar n => HUVar n
    | DNVar n d' => HNVar n d' (dm_ind' d')
    | DTVar n l => HTVar n l (go l)
    | DSVar n fs => HSVar n fs (gof fs)
    end.
End DmInd.

Section TyInd.
  Variable P : ty -> Prop.
  Hypothesis HUnit : P TUnit.
  Hypothesis HBool : P TBool.
  Hypothesis HInt : forall k, P (TInt k).
  Hypothesis HF32 : P TF32.
  Hypothesis HF64 : P TF64.
  Hypothesis HChar : P TChar.
  Hypothesis HString : P TString.
  Hypothesis HOption : forall t, P t -> P (TOption t).
  Hypothesis HVec : forall t, P t -> P (TVec t).
  Hypothesis HTuple : forall ts, Forall P ts -> P (TTuple ts).
  Hypothesis HMap : forall k v, P k -> P v -> P (TMap k v).
  Hypothesis HUStruct : P TUStruct.
  Hypothesis HNStruct : forall t, P t -> P (TNStruct t).
  Hypothesis HTStruct : forall ts, Forall P ts -> P (TTStruct ts).
  Hypothesis HStruct : forall fs, Forall (fun nt => P (snd nt)) fs -> P (TStruct fs).
  Hypothesis HEnum : forall vs, Forall (fun e => P (snd (snd e))) vs -> P (TEnum vs).

  Fixpoint ty_ind' (t : ty) : P t :=
    let go := fix go l : Forall P l :=
                match l with [] => Forall_nil _ | x :: r => Forall_cons _ (ty_ind' x) (go r) end in
    match t with
    | TUnit => HUnit
    | TBool => HBool
    | TInt k => HInt k
    | TF32 => HF32
    | TF64 => HF64
    | TChar => HChar
    | TString => HString
    | TOption t' => HOption t' (ty_ind' t')
    | TVec t' => HVec t' (ty_ind' t')
    | TTuple ts => HTuple ts (go ts)
    | TMap k v => HMap k v (ty_ind' k) (ty_ind' v)
    | TUStruct => HUStruct
    | TNStruct t' => HNStruct t' (ty_ind' t')
    | TTStruct ts => HTStruct ts (go ts)
    | TStruct fs => HStruct fs ((fix gof (l : list (str * ty)) : Forall (fun nt => P (snd nt)) l :=
                                   match l with [] => Forall_nil _ | (n, x) :: r => Forall_cons (n, x) (ty_ind' x) (gof r) end) fs)
    | TEnum vs => HEnum vs ((fix goe (l : list (str * (vkind * ty))) : Forall (fun e => P (snd (snd e))) l :=
                               match l with
                               | [] => Forall_nil _
                               | (n, (k, x)) :: r => Forall_cons (n, (k, x)) (ty_ind' x) (goe r)
                               end) vs)
    end.
End TyInd.

(* ------------------------------------------------------------------ basics *)

Lemma str_eqb_eq : forall a b, str_eqb a b = true <-> a = b.
Proof.
  induction a as [|x a IH]; destruct b as [|y b]; simpl; split; intro H; try congruence; try reflexivity.
  - apply andb_true_iff in H. destruct H as [H1 H2]. apply Z.eqb_eq in H1. apply IH in H2. congruence.
  - inversion H; subst. rewrite Z.eqb_refl. simpl. apply IH. reflexivity.
Qed.

Lemma str_eqb_refl : forall a, str_eqb a a = true.
Proof. intro a. apply str_eqb_eq. reflexivity. Qed.

Lemma str_eqb_neq : forall a b, str_eqb a b = false <-> a <> b.
Proof.
  intros a b. split; intro H.
  - intro E. apply str_eqb_eq in E. congruence.
  - destruct (str_eqb a b) eqn:E; [apply str_eqb_eq in E; contradiction | reflexivity].
Qed.

Lemma forallb_map' : forall {A B} (f : A -> B) (p : B -> bool) l, forallb p (map f l) = forallb (fun x => p (f x)) l.
Proof. intros. induction l; simpl; [reflexivity|]. rewrite IHl. reflexivity. Qed.

Lemma bind_ok : forall {A B} (r : res A) (f : A -> res B) b,
    bind r f = Ok b -> exists a, r = Ok a /\ f a = Ok b.
Proof. intros A B [a| |] f b H; simpl in H; try discriminate. eauto. Qed.

Lemma mapM_no_panic : forall {A B} (f : A -> res B) l,
    Forall (fun x => f x <> Panic) l -> mapM f l <> Panic.
Proof.
  intros A B f l H. induction H as [|x l Hx Hl IH]; simpl; [discriminate|].
  destruct (f x) eqn:E; simpl; try congruence.
  destruct (mapM f l) eqn:E2; simpl; congruence.
Qed.

Lemma rmap_no_panic : forall {A B} (g : A -> B) r, r <> Panic -> rmap g r <> Panic.
Proof. intros A B g [a| |] H; simpl; congruence. Qed.

Lemma Forall_impl' : forall {A} (P Q : A -> Prop) l, (forall x, P x -> Q x) -> Forall P l -> Forall Q l.
Proof. intros. eapply Forall_impl; eauto. Qed.

(* ------------------------------------------------------------------ never a panic *)

Lemma checked_entry_no_panic : forall k v, checked_entry k v <> Panic.
Proof. intros. unfold checked_entry. destruct (hashable k); discriminate. Qed.

Theorem ser_total : forall fdisp v, ser fdisp v <> Panic.
Proof.
  intros fdisp. induction v using kvalue_ind'; simpl; try discriminate.
  - destruct n; discriminate.
  - apply rmap_no_panic, mapM_no_panic. assumption.
  - apply rmap_no_panic, mapM_no_panic. assumption.
  - apply rmap_no_panic, mapM_no_panic.
    eapply Forall_impl'; [|exact H]. intros [k x] [_ Hx]; simpl in *.
    destruct (ser fdisp x) eqn:?; simpl in *; congruence.
Qed.

Lemma fields_no_panic : forall (fs : list (str * dm)),
    Forall (fun kv => de (snd kv) <> Panic) fs ->
    mapM (fun kv => v <- de (snd kv) ;; checked_entry (KStr (fst kv)) v) fs <> Panic.
Proof.
  intros fs H. apply mapM_no_panic. eapply Forall_impl'; [|exact H].
  intros [n x] Hx; simpl in *. destruct (de x) eqn:?; simpl in *; try congruence. apply checked_entry_no_panic.
Qed.

Theorem de_total : forall d, de d <> Panic.
Proof.
  induction d using dm_ind'; simpl; try discriminate; try assumption.
  - unfold de_int. destruct (in_i64 z); discriminate.
  - apply rmap_no_panic, mapM_no_panic; assumption.
  - apply rmap_no_panic, mapM_no_panic; assumption.
  - apply rmap_no_panic, mapM_no_panic; assumption.
  - match goal with |- bind ?r _ <> _ => assert (Hr : r <> Panic) end.
    { apply mapM_no_panic. eapply Forall_impl'; [|exact H]. intros [k x] [Hk Hx]; simpl in *.
      destruct (de k) eqn:?; simpl in *; try congruence. destruct (de x) eqn:?; simpl in *; try congruence.
      apply checked_entry_no_panic. }
    destruct (mapM _ es) eqn:?; simpl in *; congruence.
  - pose proof (fields_no_panic fs H) as Hr. destruct (mapM _ fs) eqn:?; simpl in *; congruence.
  - destruct (de d) eqn:?; simpl in *; congruence.
  - pose proof (mapM_no_panic de l H) as Hr. destruct (mapM de l) eqn:?; simpl in *; congruence.
  - pose proof (fields_no_panic fs H) as Hr. destruct (mapM _ fs) eqn:?; simpl in *; congruence.
Qed.

Lemma to_koto_fields_no_panic : forall (fs : list (str * dm)),
    Forall (fun kv => to_koto (snd kv) <> Panic) fs ->
    mapM (fun kv => v <- to_koto (snd kv) ;; Ok (KStr (fst kv), v)) fs <> Panic.
Proof.
  intros fs H. apply mapM_no_panic. eapply Forall_impl'; [|exact H].
  intros [n x] Hx; simpl in *. destruct (to_koto x) eqn:?; simpl in *; congruence.
Qed.

Theorem to_koto_total : forall d, to_koto d <> Panic.
Proof.
  induction d using dm_ind'; simpl; try discriminate; try assumption.
  - unfold to_koto_int. destruct (in_i64 z); discriminate.
  - apply rmap_no_panic, mapM_no_panic; assumption.
  - apply rmap_no_panic, mapM_no_panic; assumption.
  - apply rmap_no_panic, mapM_no_panic; assumption.
  - match goal with |- bind ?r _ <> _ => assert (Hr : r <> Panic) end.
    { apply mapM_no_panic. eapply Forall_impl'; [|exact H]. intros [k x] [Hk Hx]; simpl in *.
      destruct (to_koto k) as [kk| |] eqn:?; simpl in *; try congruence. destruct (hashable kk); try discriminate.
      destruct (to_koto x) eqn:?; simpl in *; congruence. }
    destruct (mapM _ es) eqn:?; simpl in *; congruence.
  - pose proof (to_koto_fields_no_panic fs H) as Hr. destruct (mapM _ fs) eqn:?; simpl in *; congruence.
  - destruct (to_koto d) eqn:?; simpl in *; congruence.
  - pose proof (mapM_no_panic to_koto l H) as Hr. destruct (mapM to_koto l) eqn:?; simpl in *; congruence.
  - pose proof (to_koto_fields_no_panic fs H) as Hr. destruct (mapM _ fs) eqn:?; simpl in *; congruence.
Qed.

(* ------------------------------------------------------------------ maps *)

(* keys pairwise different, earlier against later (the direction kmap_insert compares in) *)
Fixpoint keys_apart (ks : list kvalue) : Prop :=
  match ks with
  | [] => True
  | k :: r => Forall (fun k' => kv_eqb k k' = false) r /\ keys_apart r
  end.

Lemma kmap_insert_fresh : forall k v m,
    Forall (fun kv => kv_eqb (fst kv) k = false) m -> kmap_insert k v m = m ++ [(k, v)].
Proof.
  intros k v m H. induction H as [|[k' v'] m Hk Hm IH]; simpl; [reflexivity|].
  simpl in Hk. rewrite Hk, IH. reflexivity.
Qed.

Lemma keys_apart_app : forall a k, keys_apart (a ++ [k]) <-> keys_apart a /\ Forall (fun k' => kv_eqb k' k = false) a.
Proof.
  induction a as [|x a IH]; intro k; simpl.
  - split; [intros _; split; [exact I|constructor] | intros _; split; [constructor|exact I]].
  - rewrite IH. rewrite Forall_app. split.
    + intros [[H1 H2] [H3 H4]]. inversion H2; subst. repeat split; auto.
    + intros [[H1 H2] H3]. inversion H3; subst. repeat split; auto.
Qed.

Lemma fold_insert_apart : forall es acc,
    keys_apart (map fst (acc ++ es)) ->
    fold_left (fun m kv => kmap_insert (fst kv) (snd kv) m) es acc = acc ++ es.
Proof.
  induction es as [|[k v] es IH]; intros acc H; simpl.
  - rewrite app_nil_r. reflexivity.
  - assert (E : acc ++ (k, v) :: es = (acc ++ [(k, v)]) ++ es) by (rewrite <- app_assoc; reflexivity).
    rewrite E in H |- *. rewrite kmap_insert_fresh.
    + apply IH. exact H.
    + rewrite map_app in H. clear IH E.
      (* the prefix acc ++ [(k,v)] is itself apart *)
      assert (Hp : keys_apart (map fst (acc ++ [(k, v)]))).
      { revert H. generalize (map fst (acc ++ [(k, v)])) as a. generalize (map fst es) as b.
        intros b a. induction a as [|x a IHa]; simpl; [auto|].
        intros [H1 H2]. apply Forall_app in H1. destruct H1 as [H1 _]. split; auto. }
      rewrite map_app in Hp. simpl in Hp. apply keys_apart_app in Hp. destruct Hp as [_ Hp].
      rewrite Forall_map in Hp. exact Hp.
Qed.

Lemma build_map_apart : forall es, keys_apart (map fst es) -> build_map es = es.
Proof. intros es H. unfold build_map. apply (fold_insert_apart es []). exact H. Qed.

(* invariants of kmap_insert / build_map: predicates on keys and on values, apartness of the keys *)
Lemma kmap_insert_inv : forall (K V : kvalue -> Prop) k v m,
    K k -> V v -> Forall (fun kv => K (fst kv) /\ V (snd kv)) m ->
    Forall (fun kv => K (fst kv) /\ V (snd kv)) (kmap_insert k v m).
Proof.
  intros K V k v m Hk Hv H. induction H as [|[k' v'] m [H1 H2] Hm IH]; simpl.
  - constructor; [split; assumption|constructor].
  - destruct (kv_eqb k' k); constructor; simpl in *; auto.
Qed.

Lemma kmap_insert_keys : forall k v m,
    (exists v0, In (k, v0) m -> False) \/ True ->
    forall k', In k' (map fst (kmap_insert k v m)) -> In k' (map fst m) \/ k' = k.
Proof.
  intros k v m _. induction m as [|[k0 v0] m IH]; simpl; intros k' H.
  - destruct H as [H|[]]. right. auto.
  - destruct (kv_eqb k0 k); simpl in H.
    + left. exact H.
    + destruct H as [H|H]; [left; left; exact H|]. apply IH in H. destruct H; [left; right; assumption|right; assumption].
Qed.

Lemma kmap_insert_apart : forall k v m,
    keys_apart (map fst m) -> keys_apart (map fst (kmap_insert k v m)).
Proof.
  intros k v m. induction m as [|[k0 v0] m IH]; simpl; intro H.
  - split; [constructor|exact I].
  - destruct H as [H1 H2]. destruct (kv_eqb k0 k) eqn:E; simpl.
    + split; assumption.
    + split; [|apply IH; exact H2].
      apply Forall_forall. intros k' Hin.
      apply (kmap_insert_keys k v m (or_intror I)) in Hin. destruct Hin as [Hin|Hin].
      * rewrite Forall_forall in H1. apply H1. exact Hin.
      * subst. exact E.
Qed.

Lemma build_map_inv : forall (K V : kvalue -> Prop) es,
    Forall (fun kv => K (fst kv) /\ V (snd kv)) es ->
    Forall (fun kv => K (fst kv) /\ V (snd kv)) (build_map es) /\ keys_apart (map fst (build_map es)).
Proof.
  intros K V es H. unfold build_map.
  assert (G : forall acc, Forall (fun kv => K (fst kv) /\ V (snd kv)) acc -> keys_apart (map fst acc) ->
                          Forall (fun kv => K (fst kv) /\ V (snd kv)) (fold_left (fun m kv => kmap_insert (fst kv) (snd kv) m) es acc)
                          /\ keys_apart (map fst (fold_left (fun m kv => kmap_insert (fst kv) (snd kv) m) es acc))).
  { induction H as [|[k v] es [Hk Hv] Hes IH]; intros acc Ha Hb; simpl; [split; assumption|].
    apply IH; [apply kmap_insert_inv; assumption | apply kmap_insert_apart; assumption]. }
  apply G; [constructor | exact I].
Qed.

(* ------------------------------------------------------------------ value round trip *)

Section KvRoundtrip.
  Variable fdisp : Z -> str.
  Notation ser := (ser fdisp).
  Notation normal := (normal fdisp).

  Definition rt (v : kvalue) : Prop :=
    serializable v = true -> exists d, ser v = Ok d /\ de d = Ok (normal v).

  Lemma rt_list : forall l, Forall rt l -> forallb serializable l = true ->
                            exists ds, mapM ser l = Ok ds /\ mapM de ds = Ok (map normal l).
  Proof.
    intros l H. induction H as [|x l Hx Hl IH]; simpl; intro S.
    - exists []. split; reflexivity.
    - apply andb_true_iff in S. destruct S as [S1 S2].
      destruct (Hx S1) as [d [E1 E2]]. destruct (IH S2) as [ds [E3 E4]].
      exists (d :: ds). rewrite E1, E3. simpl. rewrite E2, E4. simpl. split; reflexivity.
  Qed.

  Lemma rt_map : forall es,
      Forall (fun kv => rt (fst kv) /\ rt (snd kv)) es ->
      forallb (fun kv => key_ok (fst kv) && serializable (snd kv)) es = true ->
      exists ds, mapM (fun kv => d <- ser (snd kv) ;; Ok (DStr (key_display fdisp (fst kv)), d)) es = Ok ds /\
                 mapM (fun kv => k <- de (fst kv) ;; v <- de (snd kv) ;; checked_entry k v) ds
                 = Ok (map (fun kv => (KStr (key_display fdisp (fst kv)), normal (snd kv))) es).
  Proof.
    intros es H. induction H as [|[k x] es [_ Hx] Hes IH]; simpl; intro S.
    - exists []. split; reflexivity.
    - apply andb_true_iff in S. destruct S as [S1 S2]. apply andb_true_iff in S1. destruct S1 as [_ S1].
      simpl in *. destruct (Hx S1) as [d [E1 E2]]. destruct (IH S2) as [ds [E3 E4]].
      exists ((DStr (key_display fdisp k), d) :: ds). rewrite E1. simpl. rewrite E3. simpl.
      rewrite E2. simpl. rewrite E4. simpl. split; reflexivity.
  Qed.

  Theorem kv_roundtrip : forall v, rt v.
  Proof.
    induction v using kvalue_ind'; unfold rt; simpl; intro S; try discriminate.
    - eexists; split; reflexivity.
    - eexists; split; reflexivity.
    - destruct n; eexists; split; try reflexivity. simpl. unfold de_int. rewrite S. reflexivity.
    - eexists; split; reflexivity.
    - destruct (rt_list l H S) as [ds [E1 E2]]. exists (DSeq ds). rewrite E1. simpl. rewrite E2. simpl. auto.
    - destruct (rt_list l H S) as [ds [E1 E2]]. exists (DSeq ds). rewrite E1. simpl. rewrite E2. simpl. auto.
    - destruct (rt_map es H S) as [ds [E1 E2]]. exists (DMap ds). rewrite E1. simpl. rewrite E2. simpl. auto.
  Qed.
End KvRoundtrip.

(* ------------------------------------------------------------------ the normal form *)

Section NormalForm.
  Variable fdisp : Z -> str.
  Notation normal := (normal fdisp).

  Definition is_str_key (k : kvalue) : Prop := exists s, k = KStr s.

  Lemma normal_map_entries : forall (V : kvalue -> Prop) es,
      Forall (fun kv => V (normal (snd kv))) es ->
      Forall (fun kv => is_str_key (fst kv) /\ V (snd kv))
             (build_map (map (fun kv => (KStr (key_display fdisp (fst kv)), normal (snd kv))) es))
      /\ keys_apart (map fst (build_map (map (fun kv => (KStr (key_display fdisp (fst kv)), normal (snd kv))) es))).
  Proof.
    intros V es H. apply build_map_inv. rewrite Forall_map. eapply Forall_impl'; [|exact H].
    intros [k x] Hx; simpl in *. split; [eexists; reflexivity|assumption].
  Qed.

  Theorem normal_idem : forall v, normal (normal v) = normal v.
  Proof.
    induction v using kvalue_ind'; simpl; try reflexivity.
    - f_equal. rewrite map_map. apply map_ext_Forall. exact H.
    - f_equal. rewrite map_map. apply map_ext_Forall. exact H.
    - f_equal.
      assert (Hv : Forall (fun kv => normal (normal (snd kv)) = normal (snd kv)) es).
      { eapply Forall_impl'; [|exact H]. intros kv [_ Hx]. exact Hx. }
      destruct (normal_map_entries (fun x => normal x = x) es Hv) as [HB HA].
      set (B := build_map (map (fun kv => (KStr (key_display fdisp (fst kv)), normal (snd kv))) es)) in *.
      assert (E : map (fun kv => (KStr (key_display fdisp (fst kv)), normal (snd kv))) B = B).
      { clear HA. induction HB as [|[k x] B [[s Hs] Hx] HB IH]; simpl; [reflexivity|].
        simpl in *. subst k. simpl. rewrite Hx, IH. reflexivity. }
      rewrite E. apply build_map_apart. exact HA.
  Qed.

  Lemma normal_serializable : forall v, serializable v = true -> serializable (normal v) = true.
  Proof.
    induction v using kvalue_ind'; simpl; intro S; try assumption.
    - rewrite forallb_map'. rewrite forallb_forall in *. intros x Hin.
      rewrite Forall_forall in H. apply H; auto.
    - rewrite forallb_map'. rewrite forallb_forall in *. intros x Hin.
      rewrite Forall_forall in H. apply H; auto.
    - assert (Hv : Forall (fun kv => serializable (normal (snd kv)) = true) es).
      { rewrite Forall_forall in *. intros kv Hin. rewrite forallb_forall in S.
        specialize (S kv Hin). apply andb_true_iff in S. destruct S as [_ S]. destruct (H kv Hin) as [_ Hx]. auto. }
      destruct (normal_map_entries (fun x => serializable x = true) es Hv) as [HB _].
      rewrite forallb_forall. intros kv Hin. rewrite Forall_forall in HB. destruct (HB kv Hin) as [[s Hs] Hx].
      rewrite Hs, Hx. reflexivity.
  Qed.

  (* the second round trip is the identity *)
  Theorem second_roundtrip : forall v,
      serializable v = true ->
      exists d, ser fdisp (normal v) = Ok d /\ de d = Ok (normal v).
  Proof.
    intros v S. destruct (kv_roundtrip fdisp (normal v) (normal_serializable v S)) as [d [E1 E2]].
    exists d. rewrite normal_idem in E2. auto.
  Qed.

  (* on the property's class — string keys, pairwise different within a map — the normal form
     only turns lists into tuples *)
  Fixpoint to_tuples (v : kvalue) : kvalue :=
    match v with
    | KList l | KTuple l => KTuple (map to_tuples l)
    | KMap es => KMap (map (fun kv => (fst kv, to_tuples (snd kv))) es)
    | _ => v
    end.

  Definition str_of_key (k : kvalue) : option str := match k with KStr s => Some s | _ => None end.

  Fixpoint in_class (v : kvalue) : bool :=
    match v with
    | KList l | KTuple l => forallb in_class l
    | KMap es =>
        forallb (fun kv => in_class (snd kv)) es &&
        match all_some (map (fun kv => str_of_key (fst kv)) es) with
        | Some ks => keys_distinct ks
        | None => false
        end
    | _ => true
    end.

  Lemma keys_distinct_apart : forall ks, keys_distinct ks = true -> keys_apart (map KStr ks).
  Proof.
    induction ks as [|k r IH]; simpl; intro H; [exact I|].
    apply andb_true_iff in H. destruct H as [H1 H2]. split; [|apply IH; exact H2].
    rewrite Forall_map. apply Forall_forall. intros k' Hin. simpl.
    apply negb_true_iff in H1. destruct (str_eqb k k') eqn:E; [|reflexivity].
    assert (existsb (str_eqb k) r = true) by (apply existsb_exists; eauto). congruence.
  Qed.

  Lemma all_some_keys : forall (es : list (kvalue * kvalue)) ks,
      all_some (map (fun kv => str_of_key (fst kv)) es) = Some ks -> map fst es = map KStr ks.
  Proof.
    induction es as [|[k x] es IH]; simpl; intros ks H.
    - inversion H. reflexivity.
    - destruct k; simpl in H; try discriminate.
      destruct (all_some (map (fun kv => str_of_key (fst kv)) es)) eqn:E; try discriminate.
      inversion H; subst. simpl. f_equal. apply IH. reflexivity.
  Qed.

  Theorem class_normal_form : forall v, in_class v = true -> normal v = to_tuples v.
  Proof.
    induction v using kvalue_ind'; simpl; intro S; try reflexivity.
    - f_equal. apply map_ext_Forall. rewrite Forall_forall in *. rewrite forallb_forall in S. auto.
    - f_equal. apply map_ext_Forall. rewrite Forall_forall in *. rewrite forallb_forall in S. auto.
    - apply andb_true_iff in S. destruct S as [S1 S2].
      destruct (all_some (map (fun kv => str_of_key (fst kv)) es)) as [ks|] eqn:E; try discriminate.
      pose proof (all_some_keys es ks E) as Hk.
      f_equal.
      assert (E2 : map (fun kv => (KStr (key_display fdisp (fst kv)), normal (snd kv))) es
                   = map (fun kv => (fst kv, to_tuples (snd kv))) es).
      { clear S2. revert ks E Hk. induction H as [|[k x] es [_ Hx] Hes IH]; intros ks E Hk; simpl; [reflexivity|].
        simpl in S1. apply andb_true_iff in S1. destruct S1 as [Sx Ses]. simpl in *.
        destruct k; simpl in E; try discriminate.
        destruct (all_some (map (fun kv => str_of_key (fst kv)) es)) eqn:E3; try discriminate.
        inversion E; subst. simpl in Hk. inversion Hk.
        simpl. rewrite (Hx Sx). f_equal. eapply IH; eauto. }
      rewrite E2. apply build_map_apart. rewrite map_map. simpl.
      change (map (fun x : kvalue * kvalue => fst x) es) with (map fst es). rewrite Hk.
      apply keys_distinct_apart. exact S2.
  Qed.
End NormalForm.

(* ------------------------------------------------------------------ text formats *)

Lemma de_int_erase : forall d, de (int_erase d) = de d.
Proof.
  assert (L : forall l, Forall (fun d => de (int_erase d) = de d) l -> mapM de (map int_erase l) = mapM de l).
  { intros l H. induction H as [|x l Hx Hl IH]; simpl; [reflexivity|]. rewrite Hx, IH. reflexivity. }
  assert (F : forall fs, Forall (fun kv : str * dm => de (int_erase (snd kv)) = de (snd kv)) fs ->
                         mapM (fun kv => v <- de (snd kv) ;; checked_entry (KStr (fst kv)) v)
                              (map (fun kv => (fst kv, int_erase (snd kv))) fs)
                         = mapM (fun kv => v <- de (snd kv) ;; checked_entry (KStr (fst kv)) v) fs).
  { intros fs H. induction H as [|[n x] l Hx Hl IH]; simpl; [reflexivity|]. simpl in Hx. rewrite Hx, IH. reflexivity. }
  induction d using dm_ind'; simpl; try reflexivity; try assumption.
  - rewrite (L l H). reflexivity.
  - rewrite (L l H). reflexivity.
  - rewrite (L l H). reflexivity.
  - assert (E : mapM (fun kv => k <- de (fst kv) ;; v <- de (snd kv) ;; checked_entry k v)
                     (map (fun kv => (int_erase (fst kv), int_erase (snd kv))) es)
                = mapM (fun kv => k <- de (fst kv) ;; v <- de (snd kv) ;; checked_entry k v) es).
    { induction H as [|[k x] l [Hk Hx] Hl IH]; simpl; [reflexivity|]. simpl in *. rewrite Hk, Hx, IH. reflexivity. }
    rewrite E. reflexivity.
  - rewrite (F fs H). reflexivity.
  - rewrite IHd. reflexivity.
  - rewrite (L l H). reflexivity.
  - rewrite (F fs H). reflexivity.
Qed.

Section Codec.
  (* a text format: third-party printer and parser (the parser as seen by a visitor through
     deserialize_any), faithful on a class of trees up to the width of integers *)
  Variable text : Type.
  Variable print : dm -> res text.
  Variable parse : text -> res dm.
  Variable representable : dm -> Prop.
  Hypothesis codec_faithful :
    forall d, representable d -> exists t d', print d = Ok t /\ parse t = Ok d' /\ int_erase d' = int_erase d.

  Variable fdisp : Z -> str.

  (* <fmt>.to_string / <fmt>.from_string of libs/{json,yaml,toml} *)
  Definition to_string (v : kvalue) : res text := d <- ser fdisp v ;; print d.
  Definition from_string (t : text) : res kvalue := d <- parse t ;; de d.

  Theorem text_roundtrip : forall v d,
      serializable v = true -> ser fdisp v = Ok d -> representable d ->
      exists t, to_string v = Ok t /\ from_string t = Ok (normal fdisp v).
  Proof.
    intros v d S E R. destruct (kv_roundtrip fdisp v S) as [d0 [E1 E2]].
    rewrite E in E1. inversion E1; subst d0.
    destruct (codec_faithful d R) as [t [d' [P1 [P2 P3]]]].
    exists t. unfold to_string, from_string. rewrite E. simpl. rewrite P1, P2. simpl.
    rewrite <- (de_int_erase d'), P3, de_int_erase. auto.
  Qed.

  Theorem text_second_roundtrip : forall v d2,
      serializable v = true -> ser fdisp (normal fdisp v) = Ok d2 -> representable d2 ->
      exists t2, to_string (normal fdisp v) = Ok t2 /\ from_string t2 = Ok (normal fdisp v).
  Proof.
    intros v d2 S E R.
    destruct (text_roundtrip (normal fdisp v) d2 (normal_serializable fdisp v S) E R) as [t [T1 T2]].
    exists t. rewrite normal_idem in T2. auto.
  Qed.
End Codec.

(* ------------------------------------------------------------------ from_koto never panics *)

Lemma read_fields_no_panic : forall {T} (f : T -> kvalue -> res dm) ts,
    Forall (fun t => forall v, f t v <> Panic) ts -> forall l, read_fields f ts l <> Panic.
Proof.
  intros T f ts H. induction H as [|t ts Ht Hts IH]; intros l; simpl.
  - destruct l; discriminate.
  - destruct l as [|v r]; [discriminate|].
    destruct (f t v) eqn:E; simpl; try discriminate; [|exfalso; eapply Ht; eauto].
    destruct (read_fields f ts r) eqn:E2; simpl; try discriminate. exfalso; eapply IH; eauto.
Qed.

Lemma find_field_no_panic : forall n es, find_field n es <> Panic.
Proof.
  intros n es. induction es as [|[k v] es IH]; simpl; [discriminate|].
  destruct k; try discriminate.
  destruct (find_field n es) as [o| |] eqn:E; simpl; try congruence.
  destruct (str_eqb s n); [destruct o|]; discriminate.
Qed.

Lemma bind_no_panic : forall {A B} (r : res A) (f : A -> res B),
    r <> Panic -> (forall a, f a <> Panic) -> bind r f <> Panic.
Proof. intros A B [a| |] f H1 H2; simpl; [apply H2|discriminate|congruence]. Qed.

Theorem from_koto_total : forall t v, from_koto t v <> Panic.
Proof.
  induction t using ty_ind'; intro v; simpl.
  - destruct v; discriminate.
  - destruct v; discriminate.
  - unfold from_koto_int. destruct v; try discriminate. destruct k; try discriminate;
      destruct (num_to_int I64 n <? 0); discriminate.
  - destruct v; try discriminate. destruct n; discriminate.
  - destruct v; try discriminate. destruct n; discriminate.
  - destruct v; try discriminate. destruct s as [|c s]; [vm_compute; discriminate|].
    match goal with |- (if ?c then _ else _) <> _ => destruct c end; discriminate.
  - destruct v; discriminate.
  - destruct v; try discriminate; apply rmap_no_panic, IHt.
  - apply bind_no_panic; [destruct v; discriminate|]. intro l.
    apply rmap_no_panic, mapM_no_panic. apply Forall_forall. intros; apply IHt.
  - apply bind_no_panic; [destruct v; discriminate|]. intro l.
    apply rmap_no_panic, read_fields_no_panic. exact H.
  - destruct v; try discriminate. apply rmap_no_panic, mapM_no_panic. apply Forall_forall.
    intros [k x] _. simpl. apply bind_no_panic; [apply IHt1|]. intro a.
    apply bind_no_panic; [apply IHt2|]. discriminate.
  - destruct v; discriminate.
  - apply rmap_no_panic, IHt.
  - apply bind_no_panic; [destruct v; discriminate|]. intro l.
    apply rmap_no_panic, read_fields_no_panic. exact H.
  - assert (Hs : forall l, (xs <- read_fields (fun nt v => from_koto (snd nt) v) fs l ;;
                            Ok (DStruct (combine (map fst fs) xs))) <> Panic).
    { intro l. apply bind_no_panic; [|discriminate]. apply read_fields_no_panic. exact H. }
    destruct v; try discriminate; try apply Hs.
    apply rmap_no_panic, mapM_no_panic. eapply Forall_impl'; [|exact H].
    intros [n t] Ht. simpl in *. apply bind_no_panic; [apply find_field_no_panic|].
    intros [fv|]; [apply bind_no_panic; [apply Ht|discriminate]|destruct (is_option t); discriminate].
  - apply bind_no_panic.
    + destruct v; try discriminate. destruct es as [|e es]; [vm_compute; discriminate|].
      match goal with |- (if ?c then _ else _) <> _ => destruct c end; discriminate.
    + intros [tag payload]. simpl. destruct tag; try discriminate.
      induction H as [|[n [kind pt]] vs Hpt Hvs IH]; [discriminate|]. simpl in Hpt.
      destruct (str_eqb n s); [|exact IH].
      destruct kind.
      * destruct payload; discriminate.
      * apply rmap_no_panic, Hpt.
      * apply bind_no_panic; [apply Hpt|]. intros x. destruct x; discriminate.
      * destruct payload; try discriminate. apply bind_no_panic; [apply Hpt|]. intros x. destruct x; discriminate.
Qed.

(* ------------------------------------------------------------------ typed round trip *)

Lemma to_koto_null_nullish : forall x, to_koto x = Ok KNull -> nullish x = true.
Proof.
  induction x using dm_ind'; simpl; intro E; try reflexivity; try discriminate; auto.
  - unfold to_koto_int in E. destruct (in_i64 z); discriminate.
  - destruct (mapM to_koto l); simpl in E; discriminate.
  - destruct (mapM to_koto l); simpl in E; discriminate.
  - destruct (mapM to_koto l); simpl in E; discriminate.
  - destruct (mapM _ es); simpl in E; discriminate.
  - destruct (mapM _ fs); simpl in E; discriminate.
  - destruct (to_koto x); simpl in E; discriminate.
  - destruct (mapM to_koto l); simpl in E; discriminate.
  - destruct (mapM _ fs); simpl in E; discriminate.
Qed.

Lemma clamp_id : forall lo hi z, (lo <=? z) && (z <=? hi) = true -> clamp lo hi z = z.
Proof.
  intros lo hi z H. apply andb_true_iff in H. destruct H as [H1 H2].
  apply Z.leb_le in H1. apply Z.leb_le in H2. unfold clamp.
  destruct (z <? lo) eqn:E1; [apply Z.ltb_lt in E1; lia|].
  destruct (hi <? z) eqn:E2; [apply Z.ltb_lt in E2; lia|]. reflexivity.
Qed.

Fixpoint kv_distinct_apart (ks : list kvalue) : kv_distinct ks = true -> keys_apart ks.
Proof.
  destruct ks as [|k r]; simpl; intro H; [exact I|].
  apply andb_true_iff in H. destruct H as [H1 H2]. split; [|apply kv_distinct_apart; exact H2].
  apply Forall_forall. intros k' Hin. rewrite forallb_forall in H1. specialize (H1 k' Hin).
  apply negb_true_iff in H1. exact H1.
Qed.

Lemma find_field_miss : forall n (pairs : list (str * kvalue)),
    Forall (fun p => str_eqb (fst p) n = false) pairs ->
    find_field n (map (fun p => (KStr (fst p), snd p)) pairs) = Ok None.
Proof.
  intros n pairs H. induction H as [|[m w] r Hm Hr IH]; simpl; [reflexivity|].
  rewrite IH. simpl in *. rewrite Hm. reflexivity.
Qed.

Lemma find_field_hit : forall (pairs : list (str * kvalue)) n v,
    keys_distinct (map fst pairs) = true -> In (n, v) pairs ->
    find_field n (map (fun p => (KStr (fst p), snd p)) pairs) = Ok (Some v).
Proof.
  induction pairs as [|[m w] r IH]; simpl; intros n v D Hin; [contradiction|].
  apply andb_true_iff in D. destruct D as [D1 D2]. apply negb_true_iff in D1.
  assert (Hm : forall p, In p r -> str_eqb m (fst p) = false).
  { intros p Hp. destruct (str_eqb m (fst p)) eqn:E; [|reflexivity].
    assert (existsb (str_eqb m) (map fst r) = true) by (apply existsb_exists; exists (fst p); split; [apply in_map; exact Hp|exact E]).
    congruence. }
  destruct Hin as [Hin|Hin].
  - inversion Hin; subst. rewrite find_field_miss.
    + simpl. rewrite str_eqb_refl. reflexivity.
    + apply Forall_forall. intros p Hp. apply str_eqb_neq. intro E. specialize (Hm p Hp).
      apply str_eqb_neq in Hm. congruence.
  - rewrite (IH n v D2 Hin). simpl. specialize (Hm (n, v) Hin). simpl in Hm. rewrite Hm. reflexivity.
Qed.

Arguments imin : simpl never.
Arguments imax : simpl never.
Arguments in_kind : simpl never.
Arguments in_i64 : simpl never.
Arguments clamp : simpl never.
Arguments f32_is_nan : simpl never.
Arguments f32_to_f64 : simpl never.
Arguments f64_to_f32 : simpl never.
Arguments i64_to_f32 : simpl never.
Arguments i64_to_f64 : simpl never.
Arguments f64_to_int_sat : simpl never.

Section Typed.
  (* Rust's `as` between f32 and f64: widening is exact, so narrowing gives the value back *)
  Hypothesis f32_exact : forall b, f32_is_nan b = false -> f64_to_f32 (f32_to_f64 b) = b.

  Definition trt (t : ty) : Prop :=
    forall x, wt t x = true -> exists v, to_koto x = Ok v /\ from_koto t v = Ok x.

  Lemma trt_vec : forall t, trt t -> forall l, forallb (wt t) l = true ->
      exists vs, mapM to_koto l = Ok vs /\ mapM (from_koto t) vs = Ok l.
  Proof.
    intros t Ht l. induction l as [|x l IH]; simpl; intro W.
    - exists []. auto.
    - apply andb_true_iff in W. destruct W as [W1 W2].
      destruct (Ht x W1) as [v [E1 E2]]. destruct (IH W2) as [vs [E3 E4]].
      exists (v :: vs). rewrite E1, E3. simpl. rewrite E2, E4. auto.
  Qed.

  Lemma trt_tuple : forall ts, Forall trt ts -> forall l, forall2b wt ts l = true ->
      exists vs, mapM to_koto l = Ok vs /\ read_fields from_koto ts vs = Ok l.
  Proof.
    intros ts H. induction H as [|t ts Ht Hts IH]; intros l W; destruct l as [|x l]; simpl in W; try discriminate.
    - exists []. auto.
    - apply andb_true_iff in W. destruct W as [W1 W2].
      destruct (Ht x W1) as [v [E1 E2]]. destruct (IH l W2) as [vs [E3 E4]].
      exists (v :: vs). simpl. rewrite E1, E3. simpl. rewrite E2, E4. auto.
  Qed.

  Definition kstr (p : str * kvalue) : kvalue * kvalue := (KStr (fst p), snd p).

  Definition field_step (es : list (kvalue * kvalue)) (nt : str * ty) : res (str * dm) :=
    o <- find_field (fst nt) es ;;
    match o with
    | Some fv => x <- from_koto (snd nt) fv ;; Ok (fst nt, x)
    | None => if is_option (snd nt) then Ok (fst nt, DNone) else Err
    end.

  Lemma trt_struct : forall fs, Forall (fun nt => trt (snd nt)) fs ->
      forall xs, forall2b (fun nt nx => str_eqb (fst nt) (fst nx) && wt (snd nt) (snd nx)) fs xs = true ->
      exists pairs,
        mapM (fun kv => v <- to_koto (snd kv) ;; Ok (KStr (fst kv), v)) xs = Ok (map kstr pairs) /\
        map fst pairs = map fst fs /\
        forall es, (forall p, In p pairs -> find_field (fst p) es = Ok (Some (snd p))) ->
                   mapM (field_step es) fs = Ok xs.
  Proof.
    intros fs H. induction H as [|[n t] fs Ht Hfs IH]; intros xs W; destruct xs as [|[m x] xs]; simpl in W; try discriminate.
    - exists []. simpl. auto.
    - apply andb_true_iff in W. destruct W as [W1 W2]. apply andb_true_iff in W1. destruct W1 as [Wn Wx].
      simpl in *. apply str_eqb_eq in Wn. subst m.
      destruct (Ht x Wx) as [v [E1 E2]]. destruct (IH xs W2) as [pairs [E3 [E4 E5]]].
      exists ((n, v) :: pairs). simpl. rewrite E1. simpl. rewrite E3. simpl. split; [reflexivity|].
      split; [rewrite E4; reflexivity|].
      intros es Hes. unfold field_step at 1. simpl. pose proof (Hes (n, v) (or_introl eq_refl)) as Hh. simpl in Hh. rewrite Hh. simpl.
      rewrite E2. simpl. rewrite (E5 es); [reflexivity|]. intros p Hp. apply Hes. right. exact Hp.
  Qed.

  Lemma struct_to_koto : forall fs, Forall (fun nt => trt (snd nt)) fs -> keys_distinct (map fst fs) = true ->
      forall xs, forall2b (fun nt nx => str_eqb (fst nt) (fst nx) && wt (snd nt) (snd nx)) fs xs = true ->
      exists es, to_koto (DStruct xs) = Ok (KMap es) /\
                 mapM (fun kv => v <- to_koto (snd kv) ;; Ok (KStr (fst kv), v)) xs = Ok es /\ build_map es = es /\
                 mapM (field_step es) fs = Ok xs.
  Proof.
    intros fs H D xs W. destruct (trt_struct fs H xs W) as [pairs [E1 [E2 E3]]].
    assert (A : build_map (map kstr pairs) = map kstr pairs).
    { apply build_map_apart. rewrite map_map. unfold kstr; simpl.
      rewrite <- (map_map fst KStr). rewrite E2. apply keys_distinct_apart. exact D. }
    exists (map kstr pairs). simpl. rewrite E1. simpl. rewrite A. repeat split; auto.
    apply E3. intros [n v] Hp. simpl. apply find_field_hit; [rewrite E2; exact D|exact Hp].
  Qed.

  Lemma trt_map : forall tk tv, trt tk -> trt tv ->
      forall es ks, forallb (fun kv => wt tk (fst kv) && wt tv (snd kv)) es = true ->
                    mapM to_koto (map fst es) = Ok ks -> forallb hashable ks = true ->
      exists vs, length vs = length ks /\
                 mapM (fun kv => k <- to_koto (fst kv) ;;
                                 if hashable k then v <- to_koto (snd kv) ;; Ok (k, v) else Err) es = Ok (combine ks vs) /\
                 mapM (fun kv => k <- from_koto tk (fst kv) ;; x <- from_koto tv (snd kv) ;; Ok (k, x)) (combine ks vs) = Ok es.
  Proof.
    intros tk tv Hk Hv es. induction es as [|[k x] es IH]; simpl; intros ks W E Hh.
    - inversion E; subst. exists []. simpl. auto.
    - apply andb_true_iff in W. destruct W as [W1 W2]. apply andb_true_iff in W1. destruct W1 as [Wk Wx]. simpl in *.
      destruct (Hk k Wk) as [k0 [K1 K2]]. rewrite K1 in E. simpl in E.
      destruct (mapM to_koto (map fst es)) as [ks'| |] eqn:E'; simpl in E; try discriminate.
      inversion E; subst ks. simpl in Hh. apply andb_true_iff in Hh. destruct Hh as [Hh1 Hh2].
      destruct (Hv x Wx) as [v [V1 V2]]. destruct (IH ks' W2 eq_refl Hh2) as [vs [L [F1 F2]]].
      exists (v :: vs). simpl. rewrite L, K1. simpl. rewrite Hh1, V1. simpl. rewrite F1. simpl.
      rewrite K2. simpl. rewrite V2. simpl. rewrite F2. simpl. auto.
  Qed.

  Lemma combine_fst : forall {A B} (a : list A) (b : list B), length b = length a -> map fst (combine a b) = a.
  Proof.
    induction a as [|x a IH]; destruct b as [|y b]; simpl; intro L; try discriminate; [reflexivity|].
    f_equal. apply IH. lia.
  Qed.

  Theorem typed_roundtrip : forall t, trt t.
  Proof.
    induction t using ty_ind'; intros x W; destruct x;
      try match type of W with wt TF32 (DF32 ?b) = true => change (negb (f32_is_nan b) = true) in W end;
      try match type of W with negb _ = true => idtac | _ => simpl in W end; try discriminate W.
    - exists KNull. auto.
    - eexists. split; reflexivity.
    - (* integers *)
      assert (Hz : in_kind k z = true /\ in_i64 z = true).
      { destruct k, k0; try discriminate; apply andb_true_iff in W; exact W. }
      assert (Ek : k0 = k) by (destruct k, k0; try discriminate; reflexivity). subst k0.
      destruct Hz as [Hk Hi]. exists (KNum (NI z)). simpl. unfold to_koto_int. rewrite Hi. split; [reflexivity|].
      assert (C1 : clamp (imin k) (imax k) z = z) by (apply clamp_id; exact Hk).
      assert (C2 : clamp (imin I64) (imax I64) z = z) by (apply clamp_id; exact Hi).
      assert (Hn : imin k = 0 -> (z <? 0) = false).
      { intros H0. unfold in_kind in Hk. rewrite H0 in Hk. apply andb_true_iff in Hk. destruct Hk as [Hk _].
        apply Z.leb_le in Hk. apply Z.ltb_ge. exact Hk. }
      destruct k; simpl; rewrite ?C1, ?C2; try reflexivity; rewrite (Hn eq_refl); reflexivity.
    - exists (KNum (NF (f32_to_f64 bits))). simpl. rewrite f32_exact; [auto|]. apply negb_true_iff in W. exact W.
    - eexists. split; reflexivity.
    - exists (KStr [c]). simpl. auto.
    - eexists. split; reflexivity.
    - exists KNull. auto.
    - (* Some x *)
      apply andb_true_iff in W. destruct W as [W1 W2]. apply negb_true_iff in W2.
      destruct (IHt x W1) as [v [E1 E2]]. exists v. simpl. split; [exact E1|].
      assert (Hv : v <> KNull).
      { intro E. subst v. apply to_koto_null_nullish in E1. congruence. }
      destruct v; try congruence; simpl; rewrite E2; reflexivity.
    - destruct (trt_vec t IHt l W) as [vs [E1 E2]]. exists (KTuple vs). simpl. rewrite E1. simpl. rewrite E2. auto.
    - destruct (trt_tuple ts H l W) as [vs [E1 E2]]. exists (KTuple vs). simpl. rewrite E1. simpl. rewrite E2. auto.
    - (* maps *)
      apply andb_true_iff in W. destruct W as [W1 W2]. unfold keys_convert in W2.
      destruct (mapM to_koto (map fst es)) as [ks| |] eqn:E; try discriminate.
      apply andb_true_iff in W2. destruct W2 as [Hh Hd].
      destruct (trt_map t1 t2 IHt1 IHt2 es ks W1 E Hh) as [vs [L [F1 F2]]].
      exists (KMap (combine ks vs)). simpl. rewrite F1. simpl.
      assert (A : build_map (combine ks vs) = combine ks vs).
      { apply build_map_apart. rewrite combine_fst by exact L. apply kv_distinct_apart. exact Hd. }
      rewrite A. split; [reflexivity|]. rewrite F2. reflexivity.
    - exists KNull. auto.
    - destruct (IHt x W) as [v [E1 E2]]. exists v. simpl. rewrite E2. auto.
    - destruct (trt_tuple ts H l W) as [vs [E1 E2]]. exists (KTuple vs). simpl. rewrite E1. simpl. rewrite E2. auto.
    - (* structs *)
      apply andb_true_iff in W. destruct W as [W1 W2].
      destruct (struct_to_koto fs H W2 fs0 W1) as [es [E1 [_ [_ E2]]]].
      exists (KMap es). split; [exact E1|]. simpl. change (mapM _ fs) with (mapM (field_step es) fs).
      rewrite E2. reflexivity.
    - (* unit variant *)
      exists (KStr n). simpl. split; [reflexivity|].
      induction H as [|[m [kind pt]] vs Hpt Hvs IH]; simpl in W; [discriminate|].
      destruct (str_eqb m n) eqn:E.
      + apply str_eqb_eq in E. subst m. destruct kind; try discriminate. reflexivity.
      + apply IH. exact W.
    - (* newtype variant *)
      induction H as [|[m [kind pt]] vs Hpt Hvs IH]; [discriminate|]. simpl in Hpt.
      destruct (str_eqb m n) eqn:E.
      + apply str_eqb_eq in E. subst m. destruct kind; try discriminate.
        destruct (Hpt x W) as [v [E1 E2]]. exists (KMap [(KStr n, v)]). simpl. rewrite E1. simpl.
        rewrite str_eqb_refl. rewrite E2. auto.
      + destruct (IH W) as [v [E1 E2]]. exists v. split; [exact E1|].
        simpl in E1. destruct (to_koto x) as [v0| |]; simpl in E1; try discriminate. inversion E1; subst v.
        simpl in *. rewrite E. exact E2.
    - (* tuple variant *)
      induction H as [|[m [kind pt]] vs Hpt Hvs IH]; [discriminate|]. simpl in Hpt.
      destruct (str_eqb m n) eqn:E.
      + apply str_eqb_eq in E. subst m. destruct kind; try discriminate.
        destruct (Hpt (DTuple l) W) as [v [E1 E2]]. simpl in E1.
        destruct (mapM to_koto l) as [vs'| |] eqn:El; simpl in E1; try discriminate. inversion E1; subst v.
        exists (KMap [(KStr n, KTuple vs')]). simpl. rewrite El. simpl. rewrite str_eqb_refl. rewrite E2. auto.
      + destruct (IH W) as [v [E1 E2]]. exists v. split; [exact E1|].
        simpl in E1. destruct (mapM to_koto l) as [v0| |]; simpl in E1; try discriminate. inversion E1; subst v.
        simpl in *. rewrite E. exact E2.
    - (* struct variant *)
      induction H as [|[m [kind pt]] vs Hpt Hvs IH]; [discriminate|]. simpl in Hpt.
      destruct (str_eqb m n) eqn:E.
      + apply str_eqb_eq in E. subst m. destruct kind; try discriminate.
        destruct (Hpt (DStruct fs) W) as [v [E1 E2]]. simpl in E1.
        destruct (mapM (fun kv => v <- to_koto (snd kv) ;; Ok (KStr (fst kv), v)) fs) as [es'| |] eqn:El; simpl in E1; try discriminate.
        inversion E1; subst v.
        exists (KMap [(KStr n, KMap (build_map es'))]). simpl. rewrite El. simpl. rewrite str_eqb_refl.
        rewrite E2. auto.
      + destruct (IH W) as [v [E1 E2]]. exists v. split; [exact E1|].
        simpl in E1. destruct (mapM _ fs) as [v0| |]; simpl in E1; try discriminate. inversion E1; subst v.
        simpl in *. rewrite E. exact E2.
  Qed.
End Typed.

(* ------------------------------------------------------------------ map keys: numbers *)

(* ValueKey equality on numbers is KNumber's PartialEq: same kind by value (f64 `==`), a mixed pair
   through `a as f64 == b` *)
Lemma key_equality_numbers : forall a b,
    kv_eqb (KNum a) (KNum b) =
    match a, b with
    | NI x, NI y => x =? y
    | NF x, NF y => f64_eqb x y
    | NI x, NF y => f64_eqb (i64_to_f64 x) y
    | NF x, NI y => f64_eqb x (i64_to_f64 y)
    end.
Proof. intros [x|x] [y|y]; reflexivity. Qed.
