(* C20 — what the property says, independent of how the mapping code works. *)
From Coq Require Import ZArith List Bool.
From KV.serde Require Import SerdeModel.
Import ListNotations.
Open Scope Z_scope.

(* ---------------------------------------------------------------- values *)

(* keys the model covers: null, bool, number, string, tuples of those *)
Fixpoint key_ok (k : kvalue) : bool :=
  match k with
  | KNull | KBool _ | KNum _ | KStr _ => true
  | KTuple l => forallb key_ok l
  | KList _ | KMap _ | KRange => false
  end.

(* serializable value trees: null, bool, number, string, list, tuple, map, nested arbitrarily
   (a KNumber::I64 holds an i64) *)
Fixpoint serializable (v : kvalue) : bool :=
  match v with
  | KNum (NI z) => in_i64 z
  | KNull | KBool _ | KNum (NF _) | KStr _ => true
  | KList l | KTuple l => forallb serializable l
  | KMap es => forallb (fun kv => key_ok (fst kv) && serializable (snd kv)) es
  | KRange => false
  end.

Section Normal.
  Variable fdisp : Z -> str.

  (* the documented normal form: sequences come back as tuples, keys as their display strings
     (a later entry whose key prints like an earlier one replaces that entry's value) *)
  Fixpoint normal (v : kvalue) : kvalue :=
    match v with
    | KList l | KTuple l => KTuple (map normal l)
    | KMap es => KMap (build_map (map (fun kv => (KStr (key_display fdisp (fst kv)), normal (snd kv))) es))
    | _ => v
    end.
End Normal.

(* string-keyed maps with pairwise different keys (what the property text calls a serializable map):
   on these the normal form only turns lists into tuples *)
Fixpoint keys_distinct (ks : list str) : bool :=
  match ks with
  | [] => true
  | k :: r => negb (existsb (str_eqb k) r) && keys_distinct r
  end.

(* ---------------------------------------------------------------- text formats (third party) *)

(* integer widths are not preserved by text: a parser reports 5 as u64, -5 as i64 *)
Fixpoint int_erase (d : dm) : dm :=
  match d with
  | DInt _ z => DInt I64 z
  | DSome d' => DSome (int_erase d')
  | DNStruct d' => DNStruct (int_erase d')
  | DSeq l => DSeq (map int_erase l)
  | DTuple l => DTuple (map int_erase l)
  | DTStruct l => DTStruct (map int_erase l)
  | DMap es => DMap (map (fun kv => (int_erase (fst kv), int_erase (snd kv))) es)
  | DStruct fs => DStruct (map (fun kv => (fst kv, int_erase (snd kv))) fs)
  | DNVar n d' => DNVar n (int_erase d')
  | DTVar n l => DTVar n (map int_erase l)
  | DSVar n fs => DSVar n (map (fun kv => (fst kv, int_erase (snd kv))) fs)
  | _ => d
  end.

Definition dstr_key (d : dm) : option str := match d with DStr s => Some s | _ => None end.

Fixpoint all_some {A} (l : list (option A)) : option (list A) :=
  match l with
  | [] => Some []
  | Some a :: r => match all_some r with Some x => Some (a :: x) | None => None end
  | None :: _ => None
  end.

Definition str_keys_distinct (es : list (dm * dm)) : bool :=
  match all_some (map (fun kv => dstr_key (fst kv)) es) with
  | Some ks => keys_distinct ks
  | None => false
  end.

(* trees in the image of [ser] that JSON can carry: finite floats, i64, string keys *)
Fixpoint json_ok (d : dm) : bool :=
  match d with
  | DUnit | DBool _ | DStr _ => true
  | DInt I64 z => in_i64 z
  | DF64 b => f64_is_finite b
  | DSeq l => forallb json_ok l
  | DMap es => forallb (fun kv => match fst kv with DStr _ => json_ok (snd kv) | _ => false end) es
  | _ => false
  end.

(* YAML: as JSON plus non-finite floats (NaN comes back as some NaN) *)
Fixpoint yaml_ok (d : dm) : bool :=
  match d with
  | DUnit | DBool _ | DStr _ => true
  | DInt I64 z => in_i64 z
  | DF64 b => negb (f64_is_nan b)
  | DSeq l => forallb yaml_ok l
  | DMap es => forallb (fun kv => match fst kv with DStr _ => yaml_ok (snd kv) | _ => false end) es
  | _ => false
  end.

(* what the TOML printer writes as a [table] / [[array of tables]] section *)
Definition is_table (d : dm) : bool :=
  match d with
  | DMap _ => true
  | DSeq (x :: r) => forallb (fun e => match e with DMap _ => true | _ => false end) (x :: r)
  | _ => false
  end.

(* plain values come before the sections (the printer moves them there) *)
Fixpoint tables_last (seen_table : bool) (es : list (dm * dm)) : bool :=
  match es with
  | [] => true
  | kv :: r => if is_table (snd kv) then tables_last true r else negb seen_table && tables_last seen_table r
  end.

(* TOML: no unit anywhere, keys pairwise different (a repeated key is a parse error),
   plain values before tables *)
Fixpoint toml_val_ok (d : dm) : bool :=
  match d with
  | DBool _ | DStr _ => true
  | DInt I64 z => in_i64 z
  | DF64 b => negb (f64_is_nan b)
  | DSeq l => forallb toml_val_ok l
  | DMap es => forallb (fun kv => toml_val_ok (snd kv)) es && str_keys_distinct es && tables_last false es
  | _ => false
  end.
(* ... and a table at the top *)
Definition toml_ok (d : dm) : bool := match d with DMap _ => toml_val_ok d | _ => false end.

(* ---------------------------------------------------------------- typed Rust data *)

(* trees the Serializer turns into null: inside Some(..) they are confused with None *)
Fixpoint nullish (d : dm) : bool :=
  match d with
  | DUnit | DNone | DUStruct => true
  | DSome d' | DNStruct d' => nullish d'
  | _ => false
  end.

Section Forall2b.
  Context {A B : Type} (f : A -> B -> bool).
  Fixpoint forall2b (la : list A) (lb : list B) : bool :=
    match la, lb with
    | [], [] => true
    | a :: ra, b :: rb => f a b && forall2b ra rb
    | _, _ => false
    end.
End Forall2b.

Fixpoint lookup_variant (n : str) (vs : list (str * (vkind * ty))) : option (vkind * ty) :=
  match vs with
  | [] => None
  | (m, x) :: r => if str_eqb m n then Some x else lookup_variant n r
  end.

(* pairwise different as map keys *)
Fixpoint kv_distinct (ks : list kvalue) : bool :=
  match ks with
  | [] => true
  | k :: r => forallb (fun k' => negb (kv_eqb k k')) r && kv_distinct r
  end.

(* converted keys are usable as koto map keys and stay apart *)
Definition keys_convert (keys : list dm) : bool :=
  match mapM to_koto keys with
  | Ok ks => forallb hashable ks && kv_distinct ks
  | _ => false
  end.

(* x is (the tree of) a value of the Rust type t for which the round trip is claimed.
   Side conditions forced by the code:
     integers  within the i64 range (u64 / i128 / u128 beyond it are rejected by to_koto_value),
     f32       not NaN,
     Some(x)   x must not convert to null,
     maps      converted keys hashable and pairwise different,
     structs   field names pairwise different (Rust guarantees it). *)
Fixpoint wt (t : ty) (x : dm) {struct t} : bool :=
  match t, x with
  | TUnit, DUnit => true
  | TUStruct, DUStruct => true
  | TBool, DBool _ => true
  | TInt k, DInt k' z => match k, k' with
                         | I8, I8 | I16, I16 | I32, I32 | I64, I64 | I128, I128
                         | U8, U8 | U16, U16 | U32, U32 | U64, U64 | U128, U128 => in_kind k z && in_i64 z
                         | _, _ => false
                         end
  | TF32, DF32 b => negb (f32_is_nan b)
  | TF64, DF64 _ => true
  | TChar, DChar _ => true
  | TString, DStr _ => true
  | TOption _, DNone => true
  | TOption t', DSome x' => wt t' x' && negb (nullish x')
  | TVec t', DSeq l => forallb (wt t') l
  | TTuple ts, DTuple l => forall2b wt ts l
  | TTStruct ts, DTStruct l => forall2b wt ts l
  | TNStruct t', DNStruct x' => wt t' x'
  | TMap tk tv, DMap es =>
      forallb (fun kv => wt tk (fst kv) && wt tv (snd kv)) es && keys_convert (map fst es)
  | TStruct fs, DStruct xs =>
      forall2b (fun nt nx => str_eqb (fst nt) (fst nx) && wt (snd nt) (snd nx)) fs xs
      && keys_distinct (map fst fs)
  | TEnum vs, DUVar n =>
      match lookup_variant n vs with Some (VKUnit, _) => true | _ => false end
  | TEnum vs, DNVar n x' =>
      (fix pick (vs : list (str * (vkind * ty))) : bool :=
         match vs with
         | [] => false
         | (m, (kind, pt)) :: r =>
             if str_eqb m n then match kind with VKNewtype => wt pt x' | _ => false end else pick r
         end) vs
  | TEnum vs, DTVar n l =>
      (fix pick (vs : list (str * (vkind * ty))) : bool :=
         match vs with
         | [] => false
         | (m, (kind, pt)) :: r =>
             if str_eqb m n then match kind with VKTuple => wt pt (DTuple l) | _ => false end else pick r
         end) vs
  | TEnum vs, DSVar n xs =>
      (fix pick (vs : list (str * (vkind * ty))) : bool :=
         match vs with
         | [] => false
         | (m, (kind, pt)) :: r =>
             if str_eqb m n then match kind with VKStruct => wt pt (DStruct xs) | _ => false end else pick r
         end) vs
  | _, _ => false
  end.

(* the same without the forced side conditions: every value of the type *)
Fixpoint inhabits (t : ty) (x : dm) {struct t} : bool :=
  match t, x with
  | TUnit, DUnit => true
  | TUStruct, DUStruct => true
  | TBool, DBool _ => true
  | TInt k, DInt k' z => match k, k' with
                         | I8, I8 | I16, I16 | I32, I32 | I64, I64 | I128, I128
                         | U8, U8 | U16, U16 | U32, U32 | U64, U64 | U128, U128 => in_kind k z
                         | _, _ => false
                         end
  | TF32, DF32 _ => true
  | TF64, DF64 _ => true
  | TChar, DChar _ => true
  | TString, DStr _ => true
  | TOption _, DNone => true
  | TOption t', DSome x' => inhabits t' x'
  | TVec t', DSeq l => forallb (inhabits t') l
  | TTuple ts, DTuple l => forall2b inhabits ts l
  | TTStruct ts, DTStruct l => forall2b inhabits ts l
  | TNStruct t', DNStruct x' => inhabits t' x'
  | TMap tk tv, DMap es => forallb (fun kv => inhabits tk (fst kv) && inhabits tv (snd kv)) es
  | TStruct fs, DStruct xs =>
      forall2b (fun nt nx => str_eqb (fst nt) (fst nx) && inhabits (snd nt) (snd nx)) fs xs
  | _, _ => false
  end.
