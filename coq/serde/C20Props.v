(* C20 — Data interchange round-trips.
   ONLY the pinned statements live here; every proof is `exact <lemma of SerdeProofs>` (or a closed
   computation for the witnesses).  The statements quantify over ALL koto value trees, ALL serde
   data-model trees and ALL Rust types of the modelled universe (SerdeModel.ty). *)
From Coq Require Import ZArith List Bool String.
From KV.serde Require Import SerdeModel SerdeSpec SerdeProofs.
Import ListNotations.
Open Scope Z_scope.

Section Values.
  (* Display of an f64 map key (Rust std formatting): arbitrary *)
  Variable fdisp : Z -> str.

  (* 1a. SerializableKValue then KValueVisitor give the normal form, for every serializable tree *)
  Theorem kv_roundtrip : forall v,
      serializable v = true -> exists d, ser fdisp v = Ok d /\ de d = Ok (normal fdisp v).
  Proof. exact (SerdeProofs.kv_roundtrip fdisp). Qed.

  (* 1b. the normal form is a fixed point ... *)
  Theorem normal_idem : forall v, normal fdisp (normal fdisp v) = normal fdisp v.
  Proof. exact (SerdeProofs.normal_idem fdisp). Qed.

  (* 1c. ... hence the second round trip is the identity *)
  Theorem second_roundtrip : forall v,
      serializable v = true -> exists d, ser fdisp (normal fdisp v) = Ok d /\ de d = Ok (normal fdisp v).
  Proof. exact (SerdeProofs.second_roundtrip fdisp). Qed.

  (* 1d. on the property's class (string keys, pairwise different within a map) the normal form is
     exactly "sequences become tuples" *)
  Theorem class_normal_form : forall v, in_class v = true -> normal fdisp v = to_tuples v.
  Proof. exact (SerdeProofs.class_normal_form fdisp). Qed.

  Section Text.
    (* a text format (serde_json / serde_yaml_ng / toml): third-party printer and parser, assumed
       faithful up to integer width on a class of trees (json_ok / yaml_ok / toml_ok of SerdeSpec are
       the classes the correspondence runs validate) *)
    Variable text : Type.
    Variable print : dm -> res text.
    Variable parse : text -> res dm.
    Variable representable : dm -> Prop.
    Hypothesis codec_faithful :
      forall d, representable d -> exists t d', print d = Ok t /\ parse t = Ok d' /\ int_erase d' = int_erase d.

    (* 1e. <fmt>.from_string (<fmt>.to_string v) = normal v *)
    Theorem text_roundtrip : forall v d,
        serializable v = true -> ser fdisp v = Ok d -> representable d ->
        exists t, to_string text print fdisp v = Ok t /\ from_string text parse t = Ok (normal fdisp v).
    Proof. exact (SerdeProofs.text_roundtrip text print parse representable codec_faithful fdisp). Qed.

    (* 1f. and once more: the identity *)
    Theorem text_second_roundtrip : forall v d2,
        serializable v = true -> ser fdisp (normal fdisp v) = Ok d2 -> representable d2 ->
        exists t2, to_string text print fdisp (normal fdisp v) = Ok t2 /\
                   from_string text parse t2 = Ok (normal fdisp v).
    Proof. exact (SerdeProofs.text_second_roundtrip text print parse representable codec_faithful fdisp). Qed.
  End Text.

  (* 3a. serializing never panics *)
  Theorem ser_total : forall v, ser fdisp v <> Panic.
  Proof. exact (SerdeProofs.ser_total fdisp). Qed.
End Values.

Print Assumptions kv_roundtrip.
Print Assumptions normal_idem.
Print Assumptions second_roundtrip.
Print Assumptions class_normal_form.
Print Assumptions text_roundtrip.
Print Assumptions text_second_roundtrip.
Print Assumptions ser_total.

(* 2. typed Rust data -> KValue -> typed Rust data is the identity, with exactly the side conditions
   in SerdeSpec.wt.  FULL statement (refuted below, classes C20a-C20c):
     forall t x, inhabits t x = true -> exists v, to_koto x = Ok v /\ from_koto t v = Ok x *)
Section Typed.
  (* Rust's `as`: f32 -> f64 is exact, so f64 -> f32 gives the value back (validated against Rust) *)
  Hypothesis f32_exact : forall b, f32_is_nan b = false -> f64_to_f32 (f32_to_f64 b) = b.

  Theorem typed_roundtrip : forall t x,
      wt t x = true -> exists v, to_koto x = Ok v /\ from_koto t v = Ok x.
  Proof. exact (SerdeProofs.typed_roundtrip f32_exact). Qed.
End Typed.
Print Assumptions typed_roundtrip.

(* 3b-d. malformed / out-of-range / wrongly shaped input: a value or an error, never a panic *)
Theorem de_total : forall d, de d <> Panic.
Proof. exact SerdeProofs.de_total. Qed.
Print Assumptions de_total.

Theorem from_koto_total : forall t v, from_koto t v <> Panic.
Proof. exact SerdeProofs.from_koto_total. Qed.
Print Assumptions from_koto_total.

Theorem to_koto_total : forall d, to_koto d <> Panic.
Proof. exact SerdeProofs.to_koto_total. Qed.
Print Assumptions to_koto_total.

(* ---------------------------------------------------------------- the excluded classes: witnesses
   (each is replayed on the real code by checks/c20.py, corpus/C20/witnesses.jsonl) *)

(* C20a  u64::MAX: a value of type u64, rejected by to_koto_value *)
Theorem typed_u64_refuted :
  inhabits (TInt U64) (DInt U64 18446744073709551615) = true /\
  wt (TInt U64) (DInt U64 18446744073709551615) = false /\
  to_koto (DInt U64 18446744073709551615) = Err.
Proof. vm_compute. repeat split. Qed.
Print Assumptions typed_u64_refuted.

(* C20b  Some(None) : Option<Option<u8>> comes back as None *)
Theorem typed_some_none_refuted :
  inhabits (TOption (TOption (TInt U8))) (DSome DNone) = true /\
  wt (TOption (TOption (TInt U8))) (DSome DNone) = false /\
  (v <- to_koto (DSome DNone) ;; from_koto (TOption (TOption (TInt U8))) v) = Ok DNone.
Proof. vm_compute. repeat split. Qed.
Print Assumptions typed_some_none_refuted.

(* C20c  BTreeMap<KeyStruct, u8>: the key converts to a koto map, which is not hashable *)
Definition w_keystruct_ty : ty := TMap (TStruct [(lit "k"%string, TInt U8)]) (TInt U8).
Definition w_keystruct_val : dm := DMap [(DStruct [(lit "k"%string, DInt U8 1)], DInt U8 2)].
Theorem typed_struct_key_refuted :
  inhabits w_keystruct_ty w_keystruct_val = true /\
  wt w_keystruct_ty w_keystruct_val = false /\
  to_koto w_keystruct_val = Err.
Proof. vm_compute. repeat split. Qed.
Print Assumptions typed_struct_key_refuted.

(* C20d  "out-of-range input yields an error" fails for numbers read into a narrower integer type:
   300 -> u8 gives Ok 255, 1.5 -> u8 gives Ok 1 (saturating From<KNumber>; the error variants
   OutOfU8RangeNumber / OutOfI64RangeNumber are never constructed) *)
Theorem de_range_error_refuted :
  from_koto (TInt U8) (KNum (NI 300)) = Ok (DInt U8 255) /\
  from_koto (TInt U8) (KNum (NF 4609434218613702656)) = Ok (DInt U8 1) /\
  from_koto (TInt I64) (KNum (NF 9214364837600034816)) = Ok (DInt I64 9223372036854775807).
Proof. vm_compute. repeat split. Qed.
Print Assumptions de_range_error_refuted.

(* map keys that are numbers: koto's ValueKey equality (KNumber PartialEq), mirrored exactly *)
Theorem key_equality_numbers : forall a b,
    kv_eqb (KNum a) (KNum b) =
    match a, b with
    | NI x, NI y => x =? y
    | NF x, NF y => f64_eqb x y
    | NI x, NF y => f64_eqb (i64_to_f64 x) y
    | NF x, NI y => f64_eqb x (i64_to_f64 y)
    end.
Proof. exact SerdeProofs.key_equality_numbers. Qed.
Print Assumptions key_equality_numbers.

(* 0 = 0.0 = -0.0, 1 = 1.0, 2^53+1 = 2^53 as f64 (the `as f64` rounding), NaN <> NaN *)
Example ex_key_eq :
  kv_eqb (KNum (NI 0)) (KNum (NF 0)) = true /\
  kv_eqb (KNum (NI 0)) (KNum (NF 9223372036854775808)) = true /\
  kv_eqb (KNum (NF 4607182418800017408)) (KNum (NI 1)) = true /\
  kv_eqb (KNum (NI 9007199254740993)) (KNum (NF 4845873199050653696)) = true /\
  kv_eqb (KNum (NI 9007199254740993)) (KNum (NI 9007199254740992)) = false /\
  kv_eqb (KNum (NF 9221120237041090560)) (KNum (NF 9221120237041090560)) = false.
Proof. vm_compute. repeat split. Qed.

(* a document with the keys 0.0, 0, 0.0: one entry, first key kept, last value wins *)
Example ex_key_collapse :
  de (DMap [(DF32 0, DStruct []); (DInt U16 0, DSome DUnit); (DF32 0, DChar 10)]) = Ok (KMap [(KNum (NF 0), KStr [10])]).
Proof. vm_compute. reflexivity. Qed.

(* ---------------------------------------------------------------- non-vacuity *)

(* {"a": [1, 2.5, null], 5: "x"}  is serializable, its normal form differs from it
   (list -> tuple, key 5 -> "5"), and it is not in the property's class because of the number key *)
Definition ex_v : kvalue :=
  KMap [(KStr (lit "a"%string), KList [KNum (NI 1); KNum (NF 4612811918334230528); KNull]); (KNum (NI 5), KStr (lit "x"%string))].
Example ex_serializable : serializable ex_v = true.
Proof. vm_compute. reflexivity. Qed.
Example ex_normal :
  normal (fun _ => []) ex_v =
  KMap [(KStr (lit "a"%string), KTuple [KNum (NI 1); KNum (NF 4612811918334230528); KNull]); (KStr (lit "5"%string), KStr (lit "x"%string))].
Proof. vm_compute. reflexivity. Qed.
Example ex_json_ok : match ser (fun _ => []) ex_v with Ok d => json_ok d && yaml_ok d | _ => false end = true.
Proof. vm_compute. reflexivity. Qed.

(* colliding display strings: the later entry replaces the earlier one's value *)
Example ex_collision :
  normal (fun _ => []) (KMap [(KNum (NI 5), KNum (NI 6)); (KStr (lit "5"%string), KNum (NI 7))])
  = KMap [(KStr (lit "5"%string), KNum (NI 7))].
Proof. vm_compute. reflexivity. Qed.

(* a nested typed value satisfying wt: enum Rect { w: Some(1.5), t: (true, 'e', None) } inside Vec<Option<..>> *)
Definition ex_ty : ty :=
  TVec (TOption (TEnum [(lit "Dot"%string, (VKUnit, TUnit));
                        (lit "Rect"%string, (VKStruct, TStruct [(lit "w"%string, TOption TF64);
                                                          (lit "t"%string, TTuple [TBool; TChar; TOption TString])]))])).
Definition ex_x : dm :=
  DSeq [DNone; DSome (DUVar (lit "Dot"%string));
        DSome (DSVar (lit "Rect"%string) [(lit "w"%string, DSome (DF64 4609434218613702656));
                                    (lit "t"%string, DTuple [DBool true; DChar 233; DNone])])].
Example ex_wt : wt ex_ty ex_x = true.
Proof. vm_compute. reflexivity. Qed.
Example ex_typed : (v <- to_koto ex_x ;; from_koto ex_ty v) = Ok ex_x.
Proof. vm_compute. reflexivity. Qed.

(* TOML's class is not empty and excludes what the documented normal form says *)
Example ex_toml :
  toml_ok (DMap [(DStr (lit "a"%string), DInt I64 1); (DStr (lit "t"%string), DMap [(DStr (lit "b"%string), DSeq [DF64 0; DStr []])])]) = true /\
  toml_ok (DSeq []) = false /\ toml_ok (DMap [(DStr (lit "a"%string), DUnit)]) = false.
Proof. vm_compute. repeat split. Qed.
