(* C20 — executable model of koto's serde mapping layer (crates/serde/src).

   ser       serialize.rs     impl Serialize for SerializableKValue      KValue  -> data-model tree
   de        deserialize.rs   KValueVisitor (through deserialize_any)    tree    -> KValue
   to_koto   serializer.rs    to_koto_value / Serializer                 tree    -> KValue
   from_koto deserializer.rs  from_koto_value / Deserializer, driven by the visitor of a Rust type
                              (serde's derive / std impls)               type, KValue -> tree

   The serde data model is the inductive [dm]: one constructor per Serializer method / Visitor call.
   A typed Rust value is represented by the tree its derived Serialize impl emits.
   Outcomes are explicit: Ok / Err / Panic (the `unwrap()` sites of the Rust code).
   No proofs here. *)
From Coq Require Import ZArith List Bool String Ascii DecimalString Decimal.
Import ListNotations.
Open Scope Z_scope.

(* strings: lists of Unicode scalar values *)
Definition str := list Z.

Fixpoint str_eqb (a b : str) : bool :=
  match a, b with
  | [], [] => true
  | x :: ra, y :: rb => (x =? y) && str_eqb ra rb
  | _, _ => false
  end.

Definition lit (s : string) : str := map (fun a => Z.of_N (N_of_ascii a)) (list_ascii_of_string s).

(* Rust's Display of an i64 *)
Definition dec (z : Z) : str := lit (NilZero.string_of_int (Z.to_int z)).

(* ---------------------------------------------------------------- outcomes *)

Inductive res (A : Type) : Type :=
| Ok (a : A)
| Err
| Panic.
Arguments Ok {A} a.
Arguments Err {A}.
Arguments Panic {A}.

Definition bind {A B} (r : res A) (f : A -> res B) : res B :=
  match r with Ok a => f a | Err => Err | Panic => Panic end.
Notation "x <- r ;; k" := (bind r (fun x => k)) (at level 61, r at next level, right associativity).

Definition rmap {A B} (f : A -> B) (r : res A) : res B := bind r (fun a => Ok (f a)).

Section MapM.
  Context {A B : Type} (f : A -> res B).
  Fixpoint mapM (l : list A) : res (list B) :=
    match l with
    | [] => Ok []
    | x :: r => y <- f x ;; ys <- mapM r ;; Ok (y :: ys)
    end.
End MapM.

(* ---------------------------------------------------------------- Rust `as` casts on floats *)

(* m / 2^s rounded to nearest, ties to even (s <= 0: exact left shift) *)
Definition rne_shr (m s : Z) : Z :=
  if s <=? 0 then Z.shiftl m (- s)
  else
    let q := Z.shiftr m s in
    let r := m - Z.shiftl q s in
    let half := Z.shiftl 1 (s - 1) in
    if r <? half then q
    else if half <? r then q + 1
    else if Z.even q then q else q + 1.

(* magnitude m * 2^x (m >= 0) in a binary format with p significand bits (hidden bit included)
   and least quantum 2^qmin; the result is the bit pattern without sign, saturating to infinity *)
Definition enc_float (p qmin inf_bits m x : Z) : Z :=
  if m =? 0 then 0
  else
    let len := Z.log2 m + 1 in
    let q := Z.max (len + x - p) qmin in
    let r := rne_shr m (q - x) in
    let bits := (q - qmin) * Z.shiftl 1 (p - 1) + r in
    if inf_bits <=? bits then inf_bits else bits.

Definition f32_inf : Z := 2139095040.            (* 0x7f800000 *)
Definition f64_inf : Z := 9218868437227405312.   (* 0x7ff0000000000000 *)

Definition f64_sign (b : Z) : Z := Z.shiftr b 63.
Definition f64_exp (b : Z) : Z := Z.land (Z.shiftr b 52) 2047.
Definition f64_frac (b : Z) : Z := Z.land b (Z.shiftl 1 52 - 1).
Definition f32_sign (b : Z) : Z := Z.shiftr b 31.
Definition f32_exp (b : Z) : Z := Z.land (Z.shiftr b 23) 255.
Definition f32_frac (b : Z) : Z := Z.land b (Z.shiftl 1 23 - 1).

Definition f64_is_nan (b : Z) : bool := (f64_exp b =? 2047) && negb (f64_frac b =? 0).
Definition f32_is_nan (b : Z) : bool := (f32_exp b =? 255) && negb (f32_frac b =? 0).
Definition f64_is_finite (b : Z) : bool := negb (f64_exp b =? 2047).

(* `x as f64` for x : f32 (exact) *)
Definition f32_to_f64 (b : Z) : Z :=
  let s := Z.shiftl (f32_sign b) 63 in
  let e := f32_exp b in
  let f := f32_frac b in
  if e =? 255 then
    if f =? 0 then s + f64_inf
    else s + f64_inf + Z.shiftl 1 51 + Z.land (Z.shiftl f 29) (Z.shiftl 1 51 - 1)
  else
    let m := if e =? 0 then f else f + Z.shiftl 1 23 in
    s + enc_float 53 (-1074) f64_inf m (Z.max e 1 - 150).

(* `x as f32` for x : f64 (round to nearest even) *)
Definition f64_to_f32 (b : Z) : Z :=
  let s := Z.shiftl (f64_sign b) 31 in
  let e := f64_exp b in
  let f := f64_frac b in
  if e =? 2047 then
    if f =? 0 then s + f32_inf
    else s + f32_inf + Z.shiftl 1 22 + Z.land (Z.shiftr f 29) (Z.shiftl 1 22 - 1)
  else
    let m := if e =? 0 then f else f + Z.shiftl 1 52 in
    s + enc_float 24 (-149) f32_inf m (Z.max e 1 - 1075).

(* `i as f64`, `i as f32` for i : i64 *)
Definition i64_to_f64 (z : Z) : Z :=
  (if z <? 0 then Z.shiftl 1 63 else 0) + enc_float 53 (-1074) f64_inf (Z.abs z) 0.
Definition i64_to_f32 (z : Z) : Z :=
  (if z <? 0 then Z.shiftl 1 31 else 0) + enc_float 24 (-149) f32_inf (Z.abs z) 0.

Definition clamp (lo hi z : Z) : Z := if z <? lo then lo else if hi <? z then hi else z.

(* `x as iN / uN` for x : f64 — truncation, saturating, NaN -> 0 *)
Definition f64_to_int_sat (lo hi b : Z) : Z :=
  let e := f64_exp b in
  let f := f64_frac b in
  if e =? 2047 then
    if f =? 0 then (if f64_sign b =? 1 then lo else hi) else 0
  else
    let m := if e =? 0 then f else f + Z.shiftl 1 52 in
    let x := Z.max e 1 - 1075 in
    let t := if 0 <=? x then Z.shiftl m x else Z.shiftr m (- x) in
    clamp lo hi (if f64_sign b =? 1 then - t else t).

(* ---------------------------------------------------------------- koto values *)

(* KNumber: I64 or F64 (the float by its bit pattern) *)
Inductive knum := NI (z : Z) | NF (bits : Z).

(* KRange stands for the value kinds that are hashable but not serializable.
   Domain of the model: no KRange in key position (its Display is not modelled), and no map whose
   number keys make key equality non-transitive (two different large i64 that convert to the same
   f64, together with that f64: the IndexMap's choice then depends on its table layout). *)
Inductive kvalue :=
| KNull
| KBool (b : bool)
| KNum (n : knum)
| KStr (s : str)
| KList (l : list kvalue)
| KTuple (l : list kvalue)
| KMap (es : list (kvalue * kvalue))
| KRange.

(* KValue::is_hashable *)
Fixpoint hashable (v : kvalue) : bool :=
  match v with
  | KNull | KBool _ | KNum _ | KStr _ | KRange => true
  | KTuple l => forallb hashable l
  | KList _ | KMap _ => false
  end.

(* f64 `==`: NaN is equal to nothing, 0.0 == -0.0 *)
Definition f64_eqb (x y : Z) : bool :=
  negb (f64_is_nan x) && negb (f64_is_nan y) &&
  ((x =? y) || (((x =? 0) || (x =? Z.shiftl 1 63)) && ((y =? 0) || (y =? Z.shiftl 1 63)))).

(* impl PartialEq for KNumber: a mixed pair is compared as `a as f64 == b`
   (impl Hash hashes the normalized f64, so keys that compare equal are found) *)
Definition num_eqb (a b : knum) : bool :=
  match a, b with
  | NI x, NI y => x =? y
  | NF x, NF y => f64_eqb x y
  | NI x, NF y => f64_eqb (i64_to_f64 x) y
  | NF x, NI y => f64_eqb x (i64_to_f64 y)
  end.

(* ValueKey's PartialEq (+ Hash) *)
Fixpoint kv_eqb (a b : kvalue) : bool :=
  match a, b with
  | KNull, KNull => true
  | KBool x, KBool y => Bool.eqb x y
  | KNum x, KNum y => num_eqb x y
  | KStr x, KStr y => str_eqb x y
  | KRange, KRange => true
  | KTuple la, KTuple lb =>
      (fix go (la lb : list kvalue) : bool :=
         match la, lb with
         | [], [] => true
         | x :: ra, y :: rb => kv_eqb x y && go ra rb
         | _, _ => false
         end) la lb
  | _, _ => false
  end.

(* ValueMap (IndexMap) insert: an existing key keeps its position, its value is replaced *)
Fixpoint kmap_insert (k v : kvalue) (m : list (kvalue * kvalue)) : list (kvalue * kvalue) :=
  match m with
  | [] => [(k, v)]
  | (k', v') :: r => if kv_eqb k' k then (k', v) :: r else (k', v') :: kmap_insert k v r
  end.

Definition build_map (es : list (kvalue * kvalue)) : list (kvalue * kvalue) :=
  fold_left (fun m kv => kmap_insert (fst kv) (snd kv) m) es [].

(* ---------------------------------------------------------------- serde data model *)

Inductive ikind := I8 | I16 | I32 | I64 | I128 | U8 | U16 | U32 | U64 | U128.

Inductive dm :=
| DUnit
| DBool (b : bool)
| DInt (k : ikind) (z : Z)
| DF32 (bits : Z)
| DF64 (bits : Z)
| DChar (c : Z)
| DStr (s : str)
| DBytes (l : list Z)
| DNone
| DSome (d : dm)
| DUStruct
| DNStruct (d : dm)
| DSeq (l : list dm)
| DTuple (l : list dm)
| DTStruct (l : list dm)
| DMap (es : list (dm * dm))
| DStruct (fs : list (str * dm))
| DUVar (n : str)
| DNVar (n : str) (d : dm)
| DTVar (n : str) (l : list dm)
| DSVar (n : str) (fs : list (str * dm)).

Definition i64_min : Z := -9223372036854775808.
Definition i64_max : Z := 9223372036854775807.
Definition in_i64 (z : Z) : bool := (i64_min <=? z) && (z <=? i64_max).

Definition imin (k : ikind) : Z :=
  match k with
  | I8 => -128 | I16 => -32768 | I32 => -2147483648 | I64 => i64_min
  | I128 => - 2 ^ 127
  | U8 | U16 | U32 | U64 | U128 => 0
  end.
Definition imax (k : ikind) : Z :=
  match k with
  | I8 => 127 | I16 => 32767 | I32 => 2147483647 | I64 => i64_max
  | I128 => 2 ^ 127 - 1
  | U8 => 255 | U16 => 65535 | U32 => 4294967295 | U64 => 2 ^ 64 - 1 | U128 => 2 ^ 128 - 1
  end.
Definition in_kind (k : ikind) (z : Z) : bool := (imin k <=? z) && (z <=? imax k).

(* ---------------------------------------------------------------- serialize.rs *)

Section Ser.
  (* Rust's Display of an f64 as written by `impl Display for KNumber` (std formatting: external) *)
  Variable fdisp : Z -> str.

  (* impl Display for ValueKey *)
  Fixpoint key_display (k : kvalue) : str :=
    match k with
    | KNull => lit "null"
    | KBool true => lit "true"
    | KBool false => lit "false"
    | KNum (NI z) => dec z
    | KNum (NF b) => fdisp b
    | KStr s => s
    | KTuple l =>
        lit "(" ++
        (fix go (first : bool) (l : list kvalue) : str :=
           match l with
           | [] => []
           | x :: r => (if first then [] else lit ", ") ++ key_display x ++ go false r
           end) true l
        ++ lit ")"
    | KList _ | KMap _ | KRange => []
    end.

  (* impl Serialize for SerializableKValue *)
  Fixpoint ser (v : kvalue) : res dm :=
    match v with
    | KNull => Ok DUnit
    | KBool b => Ok (DBool b)
    | KNum (NF b) => Ok (DF64 b)
    | KNum (NI z) => Ok (DInt I64 z)
    | KList l => rmap DSeq (mapM ser l)
    | KTuple l => rmap DSeq (mapM ser l)
    | KMap es =>
        rmap DMap (mapM (fun kv => d <- ser (snd kv) ;; Ok (DStr (key_display (fst kv)), d)) es)
    | KStr s => Ok (DStr s)
    | KRange => Err
    end.
End Ser.

(* ---------------------------------------------------------------- deserialize.rs *)

(* visit_i64 / visit_u64 / visit_i128 / visit_u128 (narrower widths forward to these):
   i64::try_from, error outside the i64 range *)
Definition de_int (z : Z) : res kvalue := if in_i64 z then Ok (KNum (NI z)) else Err.

(* visit_map's loop: ValueKey::try_from(key) then insert *)
Definition checked_entry (k v : kvalue) : res (kvalue * kvalue) :=
  if hashable k then Ok (k, v) else Err.

(* DeserializableKValue::deserialize = deserialize_any(KValueVisitor) on a deserializer presenting d *)
Fixpoint de (d : dm) : res kvalue :=
  match d with
  | DUnit | DNone | DUStruct => Ok KNull
  | DBool b => Ok (KBool b)
  | DInt _ z => de_int z
  | DF32 b => Ok (KNum (NF (f32_to_f64 b)))     (* default visit_f32 -> visit_f64(v as f64) *)
  | DF64 b => Ok (KNum (NF b))
  | DChar c => Ok (KStr [c])                    (* default visit_char -> visit_str *)
  | DStr s => Ok (KStr s)
  | DBytes l => Ok (KTuple (map (fun b => KNum (NI b)) l))
  | DSome d' => de d'                           (* visit_some -> deserialize_any *)
  | DNStruct d' => de d'                        (* visit_newtype_struct -> deserialize_any *)
  | DSeq l => rmap KTuple (mapM de l)
  | DTuple l => rmap KTuple (mapM de l)
  | DTStruct l => rmap KTuple (mapM de l)
  | DMap es =>
      es' <- mapM (fun kv => k <- de (fst kv) ;; v <- de (snd kv) ;; checked_entry k v) es ;;
      Ok (KMap (build_map es'))
  | DStruct fs =>
      es' <- mapM (fun kv => v <- de (snd kv) ;; checked_entry (KStr (fst kv)) v) fs ;;
      Ok (KMap (build_map es'))
  (* visit_enum: the tag through deserialize_any, the payload through newtype_variant *)
  | DUVar n => Ok (KMap [(KStr n, KNull)])
  | DNVar n d' => v <- de d' ;; Ok (KMap [(KStr n, v)])
  | DTVar n l => vs <- mapM de l ;; Ok (KMap [(KStr n, KTuple vs)])
  | DSVar n fs =>
      es' <- mapM (fun kv => v <- de (snd kv) ;; checked_entry (KStr (fst kv)) v) fs ;;
      Ok (KMap [(KStr n, KMap (build_map es'))])
  end.

(* ---------------------------------------------------------------- serializer.rs *)

Definition to_koto_int (z : Z) : res kvalue := if in_i64 z then Ok (KNum (NI z)) else Err.

(* to_koto_value: the Serializer fed with the tree d *)
Fixpoint to_koto (d : dm) : res kvalue :=
  match d with
  | DBool b => Ok (KBool b)
  | DInt _ z => to_koto_int z                  (* i8..u32 -> i64 always fits; u64 / i128 / u128: try_from *)
  | DF32 b => Ok (KNum (NF (f32_to_f64 b)))
  | DF64 b => Ok (KNum (NF b))
  | DChar c => Ok (KStr [c])
  | DStr s => Ok (KStr s)
  | DBytes l => Ok (KTuple (map (fun b => KNum (NI b)) l))
  | DNone | DUnit | DUStruct => Ok KNull
  | DSome d' => to_koto d'
  | DNStruct d' => to_koto d'
  | DUVar n => Ok (KStr n)
  | DNVar n d' => v <- to_koto d' ;; Ok (KMap [(KStr n, v)])
  | DSeq l => rmap KTuple (mapM to_koto l)
  | DTuple l => rmap KTuple (mapM to_koto l)
  | DTStruct l => rmap KTuple (mapM to_koto l)
  | DTVar n l => vs <- mapM to_koto l ;; Ok (KMap [(KStr n, KTuple vs)])
  | DMap es =>
      (* serialize_key: serialize the key, ValueKey::try_from; serialize_value; insert *)
      es' <- mapM (fun kv => k <- to_koto (fst kv) ;;
                             if hashable k then v <- to_koto (snd kv) ;; Ok (k, v) else Err) es ;;
      Ok (KMap (build_map es'))
  | DStruct fs =>
      es' <- mapM (fun kv => v <- to_koto (snd kv) ;; Ok (KStr (fst kv), v)) fs ;;
      Ok (KMap (build_map es'))
  | DSVar n fs =>
      es' <- mapM (fun kv => v <- to_koto (snd kv) ;; Ok (KStr (fst kv), v)) fs ;;
      Ok (KMap [(KStr n, KMap (build_map es'))])
  end.

(* ---------------------------------------------------------------- deserializer.rs *)

(* Rust types (what their Deserialize impls ask of the deserializer) *)
Inductive vkind := VKUnit | VKNewtype | VKTuple | VKStruct.

Inductive ty :=
| TUnit | TBool | TInt (k : ikind) | TF32 | TF64 | TChar | TString
| TOption (t : ty)
| TVec (t : ty)
| TTuple (ts : list ty)
| TMap (k v : ty)
| TUStruct
| TNStruct (t : ty)
| TTStruct (ts : list ty)
| TStruct (fs : list (str * ty))
(* variant name, kind, payload type: TUnit / the newtype's type / TTuple .. / TStruct .. *)
| TEnum (vs : list (str * (vkind * ty))).

(* KNumber -> i64 (impl From<KNumber> for i64: the float is cast with `as`) *)
Definition num_to_int (k : ikind) (n : knum) : Z :=
  match n with
  | NI z => clamp (imin k) (imax k) z              (* saturating_cast *)
  | NF b => f64_to_int_sat (imin k) (imax k) b     (* f as $type *)
  end.

(* deserialize_i8 .. deserialize_u128 followed by the primitive's own visitor *)
Definition from_koto_int (k : ikind) (v : kvalue) : res dm :=
  match v with
  | KNum n =>
      match k with
      | I128 => Ok (DInt k (num_to_int I64 n))     (* try_deserialize_number: i64::try_from(n) never fails *)
      | U64 | U128 =>
          let i := num_to_int I64 n in
          if i <? 0 then Err else Ok (DInt k i)    (* visit_i64 on an unsigned primitive *)
      | _ => Ok (DInt k (num_to_int k n))
      end
  | _ => Err
  end.

(* visit_value_slice with the visitor of a fixed-arity sequence (tuple, tuple struct, struct as seq):
   the visitor asks for one element per field; too few: invalid_length from the visitor; left over:
   invalid_length from visit_value_slice *)
Section Fields.
  Context {T : Type} (f : T -> kvalue -> res dm).
  Fixpoint read_fields (ts : list T) (l : list kvalue) : res (list dm) :=
    match ts with
    | [] => match l with [] => Ok [] | _ :: _ => Err end
    | t :: tr =>
        match l with
        | [] => Err
        | v :: r => x <- f t v ;; xs <- read_fields tr r ;; Ok (x :: xs)
        end
    end.
End Fields.

(* the entries of a map whose key is the string n (keys go through deserialize_identifier ->
   deserialize_str: a key that is not a string is an error); two hits: duplicate field *)
Fixpoint find_field (n : str) (es : list (kvalue * kvalue)) : res (option kvalue) :=
  match es with
  | [] => Ok None
  | (KStr s, v) :: r =>
      o <- find_field n r ;;
      if str_eqb s n then (match o with None => Ok (Some v) | Some _ => Err end) else Ok o
  | _ :: _ => Err
  end.

Definition seq_elems (v : kvalue) : res (list kvalue) :=
  match v with KTuple l | KList l => Ok l | _ => Err end.

Definition is_option (t : ty) : bool := match t with TOption _ => true | _ => false end.

(* from_koto_value::<T>: T's Deserialize impl driving Deserializer(v).
   Struct-from-map is evaluated field by field (the Rust loop goes entry by entry; the outcomes
   Ok / Err coincide). *)
Fixpoint from_koto (t : ty) (v : kvalue) {struct t} : res dm :=
  match t with
  | TUnit => match v with KNull => Ok DUnit | _ => Err end
  | TUStruct => match v with KNull => Ok DUStruct | _ => Err end
  | TBool => match v with KBool b => Ok (DBool b) | _ => Err end
  | TInt k => from_koto_int k v
  | TF32 =>
      match v with
      | KNum (NF b) => Ok (DF32 (f64_to_f32 b))
      | KNum (NI z) => Ok (DF32 (i64_to_f32 z))
      | _ => Err
      end
  | TF64 =>
      match v with
      | KNum (NF b) => Ok (DF64 b)
      | KNum (NI z) => Ok (DF64 (i64_to_f64 z))
      | _ => Err
      end
  | TChar =>
      match v with
      | KStr s =>
          if (Z.of_nat (List.length s) =? 1)                 (* s.chars().count() == 1 *)
          then match s with c :: _ => Ok (DChar c) | [] => Panic end   (* .next().unwrap() *)
          else Err
      | _ => Err
      end
  | TString => match v with KStr s => Ok (DStr s) | _ => Err end
  | TOption t' => match v with KNull => Ok DNone | _ => rmap DSome (from_koto t' v) end
  | TVec t' => l <- seq_elems v ;; rmap DSeq (mapM (from_koto t') l)
  | TTuple ts => l <- seq_elems v ;; rmap DTuple (read_fields from_koto ts l)
  | TTStruct ts => l <- seq_elems v ;; rmap DTStruct (read_fields from_koto ts l)
  | TNStruct t' => rmap DNStruct (from_koto t' v)
  | TMap tk tv =>
      match v with
      | KMap es =>
          rmap DMap (mapM (fun kv => k <- from_koto tk (fst kv) ;; x <- from_koto tv (snd kv) ;; Ok (k, x)) es)
      | _ => Err
      end
  | TStruct fs =>
      match v with
      | KTuple l | KList l =>
          xs <- read_fields (fun nt v => from_koto (snd nt) v) fs l ;;
          Ok (DStruct (combine (map fst fs) xs))
      | KMap es =>
          rmap DStruct
            (mapM (fun nt =>
                     o <- find_field (fst nt) es ;;
                     match o with
                     | Some fv => x <- from_koto (snd nt) fv ;; Ok (fst nt, x)
                     | None => if is_option (snd nt) then Ok (fst nt, DNone) else Err   (* missing_field *)
                     end) fs)
      | _ => Err
      end
  | TEnum vs =>
      (* deserialize_enum: a string (payload null) or a single-entry map *)
      tp <- match v with
            | KStr _ => Ok (v, KNull)
            | KMap es =>
                if (Z.of_nat (List.length es) =? 1)
                then match es with e :: _ => Ok e | [] => Panic end     (* get_index(0).unwrap() *)
                else Err
            | _ => Err
            end ;;
      match fst tp with
      | KStr tag =>
          (fix pick (vs : list (str * (vkind * ty))) : res dm :=
             match vs with
             | [] => Err                                                  (* unknown variant *)
             | (n, (kind, pt)) :: r =>
                 if str_eqb n tag then
                   match kind with
                   | VKUnit => match snd tp with KNull => Ok (DUVar n) | _ => Err end
                   | VKNewtype => rmap (DNVar n) (from_koto pt (snd tp))
                   | VKTuple =>                                           (* deserialize_seq *)
                       x <- from_koto pt (snd tp) ;;
                       match x with DTuple l => Ok (DTVar n l) | _ => Err end
                   | VKStruct =>                                          (* deserialize_map: maps only *)
                       match snd tp with
                       | KMap _ =>
                           x <- from_koto pt (snd tp) ;;
                           match x with DStruct l => Ok (DSVar n l) | _ => Err end
                       | _ => Err
                       end
                   end
                 else pick r
             end) vs
      | _ => Err                                                          (* the tag is read with deserialize_str *)
      end
  end.
