(* Encoders used by the correspondence check (checks/c20.py): results are flat lists of Z
   (prefix encoding of the trees), decoded on the Python side. *)
From Coq Require Import ZArith List Bool.
From KV.serde Require Import SerdeModel SerdeSpec.
Import ListNotations.
Open Scope Z_scope.

Definition zlen {A} (l : list A) : Z := Z.of_nat (length l).

Definition enc_str (s : str) : list Z := zlen s :: s.

Fixpoint enc_kv (v : kvalue) : list Z :=
  match v with
  | KNull => [0]
  | KBool b => [1; if b then 1 else 0]
  | KNum (NI z) => [2; z]
  | KNum (NF b) => [3; b]
  | KStr s => 4 :: enc_str s
  | KList l => 5 :: zlen l :: flat_map enc_kv l
  | KTuple l => 6 :: zlen l :: flat_map enc_kv l
  | KMap es => 7 :: zlen es :: flat_map (fun kv => enc_kv (fst kv) ++ enc_kv (snd kv)) es
  | KRange => [8]
  end.

Definition enc_kind (k : ikind) : Z :=
  match k with
  | I8 => 0 | I16 => 1 | I32 => 2 | I64 => 3 | I128 => 4
  | U8 => 5 | U16 => 6 | U32 => 7 | U64 => 8 | U128 => 9
  end.

Fixpoint enc_dm (d : dm) : list Z :=
  match d with
  | DUnit => [0]
  | DBool b => [1; if b then 1 else 0]
  | DInt k z => [2; enc_kind k; z]
  | DF32 b => [3; b]
  | DF64 b => [4; b]
  | DChar c => [5; c]
  | DStr s => 6 :: enc_str s
  | DBytes l => 7 :: zlen l :: l
  | DNone => [8]
  | DSome d' => 9 :: enc_dm d'
  | DUStruct => [10]
  | DNStruct d' => 11 :: enc_dm d'
  | DSeq l => 12 :: zlen l :: flat_map enc_dm l
  | DTuple l => 13 :: zlen l :: flat_map enc_dm l
  | DTStruct l => 14 :: zlen l :: flat_map enc_dm l
  | DMap es => 15 :: zlen es :: flat_map (fun kv => enc_dm (fst kv) ++ enc_dm (snd kv)) es
  | DStruct fs => 16 :: zlen fs :: flat_map (fun kv => enc_str (fst kv) ++ enc_dm (snd kv)) fs
  | DUVar n => 17 :: enc_str n
  | DNVar n d' => 18 :: enc_str n ++ enc_dm d'
  | DTVar n l => 19 :: enc_str n ++ zlen l :: flat_map enc_dm l
  | DSVar n fs => 20 :: enc_str n ++ zlen fs :: flat_map (fun kv => enc_str (fst kv) ++ enc_dm (snd kv)) fs
  end.

Definition enc_res {A} (enc : A -> list Z) (r : res A) : list Z :=
  match r with
  | Ok a => 1 :: enc a
  | Err => [0]
  | Panic => [2]
  end.

(* Display of float keys: a table dumped from the real ValueKey::to_string by the harness *)
Fixpoint fdisp_of (t : list (Z * str)) (b : Z) : str :=
  match t with
  | [] => []
  | (k, s) :: r => if k =? b then s else fdisp_of r b
  end.

(* the observables compared with the implementation *)
Definition run_ser (ft : list (Z * str)) (v : kvalue) : list Z := enc_res enc_dm (ser (fdisp_of ft) v).
Definition run_de (d : dm) : list Z := enc_res enc_kv (de d).
Definition run_to_koto (d : dm) : list Z := enc_res enc_kv (to_koto d).
Definition run_from_koto (t : ty) (v : kvalue) : list Z := enc_res enc_dm (from_koto t v).

(* ser, then de, together with the normal form and the flags of the spec:
   [de (ser v); normal v; serializable; json_ok; yaml_ok; toml_ok] *)
Definition bz (b : bool) : list Z := [if b then 1 else 0].
Definition run_text (ft : list (Z * str)) (v : kvalue) : list (list Z) :=
  let f := fdisp_of ft in
  let s := ser f v in
  [ enc_res enc_kv (d <- s ;; de d);
    enc_kv (normal f v);
    bz (serializable v);
    bz (match s with Ok d => json_ok d | _ => false end);
    bz (match s with Ok d => yaml_ok d | _ => false end);
    bz (match s with Ok d => toml_ok d | _ => false end) ].

(* typed round trip: [to_koto x; from_koto t (to_koto x); wt t x] *)
Definition run_typed (t : ty) (x : dm) : list (list Z) :=
  let k := to_koto x in
  [ enc_res enc_kv k; enc_res enc_dm (v <- k ;; from_koto t v); bz (wt t x) ].

(* the cast functions, to be compared with Rust's `as` *)
Definition run_casts (f32s f64s i64s : list Z) : list (list Z) :=
  [ map f32_to_f64 f32s; map f64_to_f32 f64s;
    map (f64_to_int_sat i64_min i64_max) f64s; map (f64_to_int_sat 0 255) f64s;
    map (f64_to_int_sat (-128) 127) f64s; map (f64_to_int_sat 0 4294967295) f64s;
    map i64_to_f64 i64s; map i64_to_f32 i64s ].
