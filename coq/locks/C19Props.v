(* C19 — rc and arc runtimes behave identically; shared containers are atomic under arc.
   ONLY pinned statements (each `exact <lemma of LocksProofs>`) and non-vacuity / refutation Examples.

   What these theorems are about: the lock-footprint MODEL (Locks.v, LocksTable.v, LocksOps.v).
   What they are NOT about: that parking_lot::RwLock really provides mutual exclusion (critical
   sections are atomic steps here by definition) and that the schedules of real threads are covered
   (every schedule is, in the model).  See the level note of the check. *)
From Coq Require Import List NArith ZArith Bool Relations.
From KV.locks Require Import Locks LocksTable LocksOps LocksProofs LocksRun GenBorrows.
Import ListNotations.

(* T1  If every operation of every thread has at most ONE critical section, then running the
       threads with ANY interleaving of critical sections equals running WHOLE operations one
       after the other in some order (here: the order of their sections): no update is lost and
       nobody observes a partially executed operation. *)
Theorem single_section_linearizable :
  forall (St Res : Type) (sched : list tid) (c : sconfig St Res),
    all_single St Res c ->
    exists order, run_sched St Res sched c = run_atomic St Res order c.
Proof. intros St Res sched c H. exists sched. exact (proj1 (single_section_linearizable_proof St Res sched c H)). Qed.
Print Assumptions single_section_linearizable.

(* T1'  instance: the single-section operations exercised by kh_arc on one shared list / map *)
Theorem stress_ops_linearizable :
  forall init (threads : list (list opd)) sched,
    Forall (Forall (fun o => op_is_single o = true)) threads ->
    run_sched cstate res sched (init_config init threads) = run_atomic cstate res sched (init_config init threads).
Proof. exact stress_ops_linearizable_proof. Qed.
Print Assumptions stress_ops_linearizable.

(* T2  If no thread ever requests a guard while it holds one, then from every reachable
       configuration with unfinished work some thread can move (no deadlock), for the plain and
       for the task-fair RwLock ... *)
Theorem one_lock_no_deadlock :
  forall fair c0 c,
    Forall (fun th => fresh_flat th = true) c0 -> reach (ArcS fair) c0 c -> unfinished c ->
    exists t c', step (ArcS fair) c t = Some c'.
Proof. exact one_lock_no_deadlock_proof. Qed.
Print Assumptions one_lock_no_deadlock.

(* ... and the wait-for graph has no cycle. *)
Theorem no_wait_for_cycle :
  forall fair c0 c,
    Forall (fun th => fresh_flat th = true) c0 -> reach (ArcS fair) c0 c ->
    forall t, ~ clos_trans tid (waits_for fair c) t t.
Proof. exact no_wait_for_cycle_proof. Qed.
Print Assumptions no_wait_for_cycle.

(* T3  A thread that holds a guard on l and requests a conflicting one on the SAME l (exclusive
       while holding anything, or anything while holding exclusive) never moves again under arc,
       whatever the other threads do ... *)
Theorem self_alias_blocks :
  forall fair c t th l m k,
    nth_error c t = Some th -> code th = Acq l m :: k -> self_conflict th l m = true ->
    forall c', reach (ArcS fair) c c' -> nth_error c' t = Some th /\ step (ArcS fair) c' t = None.
Proof. exact self_alias_blocks_proof. Qed.
Print Assumptions self_alias_blocks.

(* ... and panics (RefCell BorrowError / BorrowMutError) under rc. *)
Theorem self_alias_panics_rc :
  forall c t th l m k,
    nth_error c t = Some th -> code th = Acq l m :: k -> self_conflict th l m = true ->
    exists c', step RcS c t = Some c' /\ nth_error c' t = Some (mkThread [] [] true).
Proof. exact self_alias_panics_rc_proof. Qed.
Print Assumptions self_alias_panics_rc.

(* T4  The table, function by function, with the exceptions listed in LocksTable.v:
       single section  <->  not in multi_section_fns;   flat  <->  not in nested_fns;
       foreign code under a guard  <->  in user_inside_fns;   with receiver = argument a guard is
       requested on a location already held  <->  in nested_fns = fatal ++ recursive-read. *)
Theorem footprint_table :
  (forall f, is_single (footprint_of f) = negb (mem f multi_section_fns)) /\
  (forall f, is_flat (footprint_of f) = negb (mem f nested_fns)) /\
  (forall f, holds_across_user (footprint_of f) = mem f user_inside_fns) /\
  (forall f, reacquires 0%N 0%N (footprint_of f) = mem f nested_fns) /\
  (forall f, mem f nested_fns = mem f self_alias_fatal_fns || mem f self_alias_recursive_read_fns).
Proof. exact footprint_table_proof. Qed.
Print Assumptions footprint_table.

(* the table's predicates are the premises of T1 / T2, for all locations, aliasing and loop counts *)
Theorem is_single_sound :
  forall fp, is_single fp = true ->
    exists l m, forall n self other,
      compile self other (unroll n fp) = [Acq (reloc self other l) m; Rel (reloc self other l) m].
Proof. exact LocksProofs.is_single_sound. Qed.
Print Assumptions is_single_sound.

Theorem is_flat_sound :
  forall fp, is_flat fp = true -> forall n self other, flat_code (compile self other (unroll n fp)) = true.
Proof. exact LocksProofs.is_flat_sound. Qed.
Print Assumptions is_flat_sound.

(* T2 + T4: any number of threads running any scripts of table functions outside nested_fns, on
   any containers, never deadlock (the foreign code of user_inside_fns assumed guard-free) *)
Theorem table_scripts_no_deadlock :
  forall fair scripts c,
    Forall (Forall not_nested) scripts -> reach (ArcS fair) (spawn scripts) c ->
    (unfinished c -> exists t c', step (ArcS fair) c t = Some c') /\
    (forall t, ~ clos_trans tid (waits_for fair c) t t).
Proof. exact table_scripts_no_deadlock_proof. Qed.
Print Assumptions table_scripts_no_deadlock.

(* the section bodies of LocksOps.v take the guards their table row says *)
Theorem ops_match_table :
  forall l o s,
    subseq (modes_alone 8 (prog_of l o) s) (table_modes (unroll 1 (footprint_of (fn_of_op o)))) = true.
Proof. exact ops_match_table_proof. Qed.
Print Assumptions ops_match_table.

(* T5  "one borrow spans the whole operation", tied to the source: the borrows extracted from the
       text of every core-library arm of list.rs / map.rs on THIS checkout (GenBorrows.v, k2v_locks:
       mode + whether the borrow sits inside a loop body) equal the pinned table ... *)
Theorem borrow_pins_match : pins_eqb gen_borrows pinned_borrows = true.
Proof. vm_compute. reflexivity. Qed.
Print Assumptions borrow_pins_match.

(* ... and the pinned table agrees with the footprint rows: same acquisitions in order, a borrow in
   a loop body exactly where the row has an acquiring Loop, one borrow in single-section arms *)
Theorem borrow_pins_consistent : forallb pin_consistent pinned_borrows = true.
Proof. exact pinned_consistent_proof. Qed.
Print Assumptions borrow_pins_consistent.

(* the compound mutations are single steps: T1' covers them *)
Example compound_ops_single :
  forallb op_is_single [OExtendGen [1; 2]%Z; OResize 3 0; OFill 1; OReverse; OSort; ORetainVal 1;
                        MExtendGen [(1, 2)]%Z; MSort; OExtend [1]%Z; OClear; MClear] = true.
Proof. reflexivity. Qed.

(* ------------------------------------------------------------------------------------------ *)
(* non-vacuity and refutations (the premises are necessary)                                    *)

Local Open Scope Z_scope.

(* T1 applies: two pushers and a popper, any schedule *)
Example lin_nonvacuous :
  run_case (CL [1]) [[OPush 10; OPush 11]; [OPop; OSize]; [OPush 30]] [0; 1; 2; 1; 0]%nat
  = run_case_atomic (CL [1]) [[OPush 10; OPush 11]; [OPop; OSize]; [OPush 30]] [0; 1; 2; 1; 0]%nat
  /\ fst (fst (run_case (CL [1]) [[OPush 10; OPush 11]; [OPop; OSize]; [OPush 30]] [0; 1; 2; 1; 0]%nat))
     = [0; 1; 30; 11].
Proof. vm_compute. split; reflexivity. Qed.

Definition outcomes init threads (orders : list (list nat)) := map (run_case_atomic init threads) orders.

(* C19a  l[i] is check-then-act: `x = l[0]` against a concurrent `l.pop()` PANICS inside
   the runtime (slice index out of range), which no sequential order of the two operations does *)
Example index_not_atomic_refuted :
  let init := CL [1] in let threads := [[OIndex 0]; [OPop]] in
  snd (fst (run_case init threads [0; 1; 0]%nat)) = [[enc_res RPanic]; [enc_res (RInt 1)]] /\
  ~ In (run_case init threads [0; 1; 0]%nat) (outcomes init threads [[0; 1]; [1; 0]]%nat).
Proof. vm_compute. split; [reflexivity|]. intros [H|[H|[]]]; discriminate. Qed.

(* C19a  list.insert: bounds checked under a shared guard, Vec::insert under a later exclusive one *)
Example insert_not_atomic_refuted :
  let init := CL [1] in let threads := [[OInsert 1 9]; [OPop]] in
  snd (fst (run_case init threads [0; 1; 0]%nat)) = [[enc_res RPanic]; [enc_res (RInt 1)]] /\
  ~ In (run_case init threads [0; 1; 0]%nat) (outcomes init threads [[0; 1]; [1; 0]]%nat).
Proof. vm_compute. split; [reflexivity|]. intros [H|[H|[]]]; discriminate. Qed.

(* C19a  list.remove likewise *)
Example remove_not_atomic_refuted :
  let init := CL [1] in let threads := [[ORemove 0]; [OPop]] in
  snd (fst (run_case init threads [0; 1; 0]%nat)) = [[enc_res RPanic]; [enc_res (RInt 1)]] /\
  ~ In (run_case init threads [0; 1; 0]%nat) (outcomes init threads [[0; 1]; [1; 0]]%nat).
Proof. vm_compute. split; [reflexivity|]. intros [H|[H|[]]]; discriminate. Qed.

(* C19b  map.update is read / call / write in separate sections: two concurrent increments of the
   same key can both start from 0 and both write 1 (lost update); sequentially the result is 2 *)
Example update_lost_update_refuted :
  let init := CM [] in let threads := [[MUpdate 7 1]; [MUpdate 7 1]] in
  let sched := [0; 0; 1; 0; 1]%nat in
  fst (fst (run_case init threads sched)) = [1; 7; 1] /\
  ~ In (run_case init threads sched) (outcomes init threads [[0; 1]; [1; 0]]%nat) /\
  fst (fst (run_case_atomic init threads [0; 1]%nat)) = [1; 7; 2].
Proof. vm_compute. split; [reflexivity|]. split; [|reflexivity]. intros [H|[H|[]]]; discriminate. Qed.

Local Close Scope Z_scope.

(* lock level: `l.extend l` (and m.extend m, l.swap l) — receiver and argument the same container *)
Definition extend_self : config :=
  [mkThread [] (compile 5%N 5%N (unroll 1 (footprint_of L_extend_list))) false].

Example extend_self_code :
  code (hd (mkThread [] [] false) extend_self) = [Acq 5%N Ex; Acq 5%N Sh; Rel 5%N Sh; Rel 5%N Ex].
Proof. reflexivity. Qed.

Example extend_self_blocks_arc :
  let c := run_steps (ArcS true) extend_self [0; 0; 0; 0] in
  map held c = [[(5%N, Ex)]] /\ all_stuck (ArcS true) c /\ unfinished c.
Proof.
  vm_compute. split; [reflexivity|]. split.
  - intros [|[|t]]; reflexivity.
  - exists 0, (mkThread [(5%N, Ex)] [Acq 5%N Sh; Rel 5%N Sh; Rel 5%N Ex] false). split; [reflexivity|discriminate].
Qed.

Example extend_self_panics_rc :
  map dead (run_steps RcS extend_self [0; 0; 0; 0]) = [true].
Proof. reflexivity. Qed.

(* lock-order inversion between two containers: a.extend b || b.extend a (outside C19's
   single-container clause; recorded because T2's premise fails) *)
Definition extend_cross : config :=
  [mkThread [] (compile 1%N 2%N (unroll 1 (footprint_of L_extend_list))) false;
   mkThread [] (compile 2%N 1%N (unroll 1 (footprint_of L_extend_list))) false].

Example extend_cross_deadlocks :
  let c := run_steps (ArcS false) extend_cross [0; 1] in all_stuck (ArcS false) c /\ unfinished c.
Proof.
  vm_compute. split.
  - intros [|[|[|t]]]; reflexivity.
  - eexists 0, _. split; [reflexivity|discriminate].
Qed.

(* recursive shared acquisition (l + l, l == l, m == m) with parking_lot's fair policy: a writer
   that parks between the two read() calls deadlocks both; a non-fair lock lets the schedule finish *)
Definition add_self_vs_push : config :=
  [mkThread [] (compile 3%N 3%N (unroll 1 (footprint_of L_add))) false;
   mkThread [] (compile 3%N 3%N (unroll 1 (footprint_of L_push))) false].

Example recursive_read_deadlocks_when_fair :
  let c := run_steps (ArcS true) add_self_vs_push [0; 1; 0] in all_stuck (ArcS true) c /\ unfinished c.
Proof.
  vm_compute. split.
  - intros [|[|[|t]]]; reflexivity.
  - eexists 0, _. split; [reflexivity|discriminate].
Qed.

Example recursive_read_finishes_when_unfair :
  map code (run_steps (ArcS false) add_self_vs_push [0; 1; 0; 0; 0; 1; 1]) = [[]; []].
Proof. reflexivity. Qed.

(* T2 applies: scripts of flat table functions *)
Example no_deadlock_nonvacuous :
  Forall (Forall not_nested)
    [[(L_push, (1%N, 1%N), 0); (L_insert, (1%N, 1%N), 0); (L_retain_fn, (1%N, 1%N), 3)];
     [(M_update, (2%N, 2%N), 0); (L_index, (1%N, 1%N), 0)]].
Proof. repeat constructor. Qed.
