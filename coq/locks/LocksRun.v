(* C19 — encoders for the correspondence check: results are nested lists of Z. *)
From Coq Require Import List NArith ZArith Bool.
From KV.locks Require Import Locks LocksOps.
Import ListNotations.
Local Open Scope Z_scope.

Definition enc_res (r : res) : list Z :=
  match r with
  | RNull => [0] | RInt z => [1; z] | RBool b => [2; if b then 1 else 0] | RPair k v => [3; k; v]
  | RSelf => [4] | RErr => [5] | RPanic => [6]
  end.

Definition enc_state (s : cstate) : list Z :=
  match s with
  | CL xs => 0 :: xs
  | CM m => 1 :: flat_map (fun kv => [fst kv; snd kv]) m
  end.

Definition the_loc : loc := 0%N.

Definition init_config (init : cstate) (threads : list (list opd)) : sconfig cstate res :=
  (fun _ => init, map (fun ops => mkS (map (prog_of the_loc) ops) []) threads).

(* (final contents, per thread: results in program order, per thread: operations not yet finished) *)
Definition enc_config (c : sconfig cstate res) : list Z * list (list (list Z)) * list Z :=
  (enc_state (fst c the_loc),
   map (fun th => map enc_res (rev (results th))) (snd c),
   map (fun th => Z.of_nat (length (todo th))) (snd c)).

(* one critical section per schedule entry *)
Definition run_case (init : cstate) (threads : list (list opd)) (sched : list nat) :=
  enc_config (run_sched cstate res sched (init_config init threads)).

(* one whole operation per entry *)
Definition run_case_atomic (init : cstate) (threads : list (list opd)) (order : list nat) :=
  enc_config (run_atomic cstate res order (init_config init threads)).
