(* C19 — proofs about the lock / section / footprint model. *)
From Coq Require Import List NArith ZArith Bool Arith Lia Relations.
From KV.locks Require Import Locks LocksTable LocksOps.
Import ListNotations.

(* ------------------------------------------------------------------------------------------ *)
(* generic list surgery                                                                        *)

Lemma nth_splice {A} (c : list A) : forall t t' x, t < length c ->
  nth_error (firstn t c ++ x :: skipn (S t) c) t' = if Nat.eqb t t' then Some x else nth_error c t'.
Proof.
  induction c as [|a c IH]; intros t t' x Hlt; simpl in Hlt; [lia|].
  destruct t as [|t]; destruct t' as [|t']; simpl; auto.
  apply IH. lia.
Qed.

Lemma length_splice {A} (c : list A) : forall t x, t < length c ->
  length (firstn t c ++ x :: skipn (S t) c) = length c.
Proof.
  induction c as [|a c IH]; intros t x Hlt; simpl in Hlt; [lia|].
  destruct t as [|t]; simpl; auto. rewrite IH; auto. lia.
Qed.

Lemma Forall_splice {A} (Pp : A -> Prop) (c : list A) : forall t x,
  Forall Pp c -> Pp x -> Forall Pp (firstn t c ++ x :: skipn (S t) c).
Proof.
  induction c as [|a c IH]; intros t x Hc Hx.
  - destruct t; simpl; auto.
  - inversion Hc; subst. destruct t as [|t]; simpl.
    + constructor; auto.
    + constructor; [auto | apply IH; auto].
Qed.

Lemma nth_error_lt {A} (c : list A) t x : nth_error c t = Some x -> t < length c.
Proof. intro H. apply nth_error_Some. congruence. Qed.

Lemma mode_eqb_eq a b : mode_eqb a b = true <-> a = b.
Proof. destruct a, b; simpl; split; intro; congruence. Qed.

(* ------------------------------------------------------------------------------------------ *)
(* (1) lock level                                                                              *)

Lemma nth_upd c t t' th : t < length c ->
  nth_error (upd c t th) t' = if Nat.eqb t t' then Some th else nth_error c t'.
Proof. apply nth_splice. Qed.

(* a step of thread t0 changes thread t0 only *)
Lemma step_other s c t0 c1 t : step s c t0 = Some c1 -> t <> t0 -> nth_error c1 t = nth_error c t.
Proof.
  unfold step. destruct (nth_error c t0) as [th|] eqn:E; [|discriminate].
  pose proof (nth_error_lt _ _ _ E) as Hlt.
  intros H Hne.
  assert (forall th', nth_error (upd c t0 th') t = nth_error c t) as Hu.
  { intro th'. rewrite nth_upd by auto. destruct (Nat.eqb_spec t0 t); congruence. }
  destruct (code th) as [|[l m|l m] k]; [discriminate| |].
  - destruct (grantable (fair_of s) c t0 l m).
    + inversion H; subst; apply Hu.
    + destruct s; [|discriminate]. inversion H; subst; apply Hu.
  - inversion H; subst; apply Hu.
Qed.

(* the invariant of threads that never acquire while holding *)
Definition ok_thread (th : thread) : bool :=
  match held th with
  | [] => flat_code (code th)
  | [(l, m)] => match code th with
                | Rel l' m' :: k => N.eqb l l' && mode_eqb m m' && flat_code k
                | _ => false
                end
  | _ => false
  end.

Definition ok (c : config) : Prop := Forall (fun th => ok_thread th = true) c.

Lemma fresh_flat_ok c : Forall (fun th => fresh_flat th = true) c -> ok c.
Proof.
  unfold ok. apply Forall_impl. intros th H. unfold fresh_flat in H. unfold ok_thread.
  destruct (held th); auto. discriminate.
Qed.

Lemma ok_nth c t th : ok c -> nth_error c t = Some th -> ok_thread th = true.
Proof.
  intros H E. unfold ok in H. rewrite Forall_forall in H. apply H. eapply nth_error_In; eauto.
Qed.

Lemma step_ok s c t c' : ok c -> step s c t = Some c' -> ok c'.
Proof.
  intros Hok. unfold step. destruct (nth_error c t) as [th|] eqn:E; [|discriminate].
  pose proof (ok_nth _ _ _ Hok E) as Hth. unfold ok_thread in Hth.
  destruct (code th) as [|[l m|l m] k] eqn:Ec; [discriminate| |].
  - destruct (grantable (fair_of s) c t l m).
    + intro H; inversion H; subst. apply Forall_splice; auto.
      destruct (held th) as [|[l0 m0] [|]] eqn:Eh; try discriminate.
      unfold ok_thread; simpl.
      simpl in Hth. destruct k as [|[l1 m1|l1 m1] k']; try discriminate. exact Hth.
    + destruct s; [|discriminate]. intro H; inversion H; subst. apply Forall_splice; auto.
  - intro H; inversion H; subst. apply Forall_splice; auto.
    destruct (held th) as [|[l0 m0] [|]] eqn:Eh; try discriminate.
    unfold ok_thread; simpl.
    apply andb_prop in Hth. destruct Hth as [Hlm Hk]. rewrite Hlm. simpl. exact Hk.
Qed.

Lemma reach_ok s c c' : ok c -> reach s c c' -> ok c'.
Proof. intros H R. induction R; auto. apply IHR. eapply step_ok; eauto. Qed.

Lemma holds_ex_loc th l : holds_ex th l = true -> holds_loc th l = true.
Proof.
  unfold holds_ex, holds_loc. rewrite !existsb_exists. intros [h [Hi Hh]].
  exists h; split; auto. apply andb_prop in Hh. tauto.
Qed.

Lemma ex_held_any c l : ex_held c l = true -> held_by_any c l = true.
Proof.
  unfold ex_held, held_by_any. rewrite !existsb_exists. intros [th [Hi Hh]].
  exists th; split; auto. apply holds_ex_loc; auto.
Qed.

Lemma writer_parked_from_any i c call t l :
  writer_parked_from i c call t l = true -> held_by_any call l = true.
Proof.
  revert i. induction c as [|th r IH]; intros i H; simpl in H; [discriminate|].
  apply orb_prop in H. destruct H as [H|H]; [|eauto].
  apply andb_prop in H. tauto.
Qed.

Lemma not_grantable_held fair c t l m : grantable fair c t l m = false -> held_by_any c l = true.
Proof.
  unfold grantable. destruct m.
  - intro H. apply andb_false_iff in H. destruct H as [H|H].
    + apply negb_false_iff in H. apply ex_held_any; auto.
    + apply negb_false_iff in H. apply andb_prop in H. destruct H as [_ H].
      eapply writer_parked_from_any; eauto.
  - intro H. apply negb_false_iff in H. auto.
Qed.

(* whoever holds a guard is about to release it and is never blocked *)
Lemma holder_releases th l : ok_thread th = true -> holds_loc th l = true ->
  exists l' m' k, code th = Rel l' m' :: k.
Proof.
  unfold ok_thread, holds_loc. intros Hok Hh.
  destruct (held th) as [|[l0 m0] [|]]; simpl in Hh; try discriminate.
  destruct (code th) as [|[l1 m1|l1 m1] k]; try discriminate. eauto.
Qed.

Lemma holder_can_step s c l : ok c -> held_by_any c l = true -> exists t c', step s c t = Some c'.
Proof.
  intros Hok H. unfold held_by_any in H. apply existsb_exists in H. destruct H as [th [Hi Hh]].
  apply In_nth_error in Hi. destruct Hi as [t Ht].
  destruct (holder_releases th l (ok_nth _ _ _ Hok Ht) Hh) as [l' [m' [k Hc]]].
  exists t. unfold step. rewrite Ht, Hc. eauto.
Qed.

Lemma progress_ok fair c : ok c -> unfinished c -> exists t c', step (ArcS fair) c t = Some c'.
Proof.
  intros Hok [t [th [Ht Hc]]].
  destruct (code th) as [|[l m|l m] k] eqn:Ec; [congruence| |].
  - destruct (grantable fair c t l m) eqn:G.
    + exists t. unfold step. rewrite Ht, Ec. simpl. rewrite G. eauto.
    + apply holder_can_step with (l := l); auto. eapply not_grantable_held; eauto.
  - exists t. unfold step. rewrite Ht, Ec. eauto.
Qed.

Theorem one_lock_no_deadlock_proof : forall fair c0 c,
  Forall (fun th => fresh_flat th = true) c0 -> reach (ArcS fair) c0 c -> unfinished c ->
  exists t c', step (ArcS fair) c t = Some c'.
Proof.
  intros fair c0 c H0 R U. apply progress_ok; auto. eapply reach_ok; eauto. apply fresh_flat_ok; auto.
Qed.

(* --- wait-for graph --- *)

Definition acq_headed (c : config) (t : tid) (m : mode) : Prop :=
  exists th l k, nth_error c t = Some th /\ code th = Acq l m :: k.
Definition rel_headed (c : config) (t : tid) : Prop :=
  exists th l m k, nth_error c t = Some th /\ code th = Rel l m :: k.

Lemma wf_src fair c t t' : waits_for fair c t t' -> exists m, acq_headed c t m.
Proof. intros [l [m [[th [k [H1 [H2 _]]]] _]]]. exists m, th, l, k. auto. Qed.

Lemma wf_dst fair c t t' : ok c -> waits_for fair c t t' ->
  rel_headed c t' \/ (acq_headed c t Sh /\ acq_headed c t' Ex).
Proof.
  intros Hok [l [m [[th [k [H1 [H2 _]]]] [th' [H3 [H4|[_ [Hm [_ [H5 _]]]]]]]]]].
  - left. destruct (holder_releases th' l (ok_nth _ _ _ Hok H3) H4) as [l' [m' [k' Hc]]].
    exists th', l', m', k'. auto.
  - right. subst m. split.
    + exists th, l, k. auto.
    + unfold at_acq_ex in H5. destruct (code th') as [|[l1 [|]|] k'] eqn:E; try discriminate.
      exists th', l1, k'. auto.
Qed.

Lemma acq_rel_excl c t m : acq_headed c t m -> rel_headed c t -> False.
Proof. intros [th [l [k [H1 H2]]]] [th' [l' [m' [k' [H3 H4]]]]]. congruence. Qed.

Lemma acq_mode_excl c t : acq_headed c t Sh -> acq_headed c t Ex -> False.
Proof. intros [th [l [k [H1 H2]]]] [th' [l' [k' [H3 H4]]]]. congruence. Qed.

Theorem no_wait_for_cycle_ok fair c : ok c -> forall t, ~ clos_trans tid (waits_for fair c) t t.
Proof.
  intros Hok t Hc. apply clos_trans_t1n in Hc.
  inversion Hc as [y H1|y z H1 Hrest]; subst.
  - (* t -> t *)
    destruct (wf_src _ _ _ _ H1) as [m Hm].
    destruct (wf_dst _ _ _ _ Hok H1) as [Hr|[Hs He]].
    + exact (acq_rel_excl _ _ _ Hm Hr).
    + exact (acq_mode_excl _ _ Hs He).
  - (* t -> y ->+ t *)
    assert (exists y2, waits_for fair c y y2 /\ (y2 = t \/ exists y3, waits_for fair c y2 y3)) as [y2 [H2 Hnext]].
    { inversion Hrest as [y2 H2|y2 z2 H2 Hr2]; subst.
      - exists t. split; auto.
      - exists y2. split; auto. right. inversion Hr2; subst; eauto. }
    destruct (wf_src _ _ _ _ H2) as [my Hmy].
    destruct (wf_dst _ _ _ _ Hok H1) as [Hr|[Hs He]]; [exact (acq_rel_excl _ _ _ Hmy Hr)|].
    destruct (wf_dst _ _ _ _ Hok H2) as [Hr2|[Hs2 _]]; [|exact (acq_mode_excl _ _ Hs2 He)].
    destruct Hnext as [Heq|[y3 H3]].
    + subst y2. exact (acq_rel_excl _ _ _ Hs Hr2).
    + destruct (wf_src _ _ _ _ H3) as [m3 Hm3]. exact (acq_rel_excl _ _ _ Hm3 Hr2).
Qed.

Theorem no_wait_for_cycle_proof : forall fair c0 c,
  Forall (fun th => fresh_flat th = true) c0 -> reach (ArcS fair) c0 c ->
  forall t, ~ clos_trans tid (waits_for fair c) t t.
Proof.
  intros. apply no_wait_for_cycle_ok. eapply reach_ok; eauto. apply fresh_flat_ok; auto.
Qed.

(* --- self aliasing --- *)

Definition self_conflict (th : thread) (l : loc) (m : mode) : bool :=
  match m with Ex => holds_loc th l | Sh => holds_ex th l end.

Lemma self_conflict_not_grantable fair c t th l m :
  nth_error c t = Some th -> self_conflict th l m = true -> grantable fair c t l m = false.
Proof.
  intros Ht Hs. apply nth_error_In in Ht. unfold grantable. destruct m; simpl in Hs.
  - assert (ex_held c l = true) as ->; auto.
    unfold ex_held. apply existsb_exists. eauto.
  - assert (held_by_any c l = true) as ->; auto.
    unfold held_by_any. apply existsb_exists. eauto.
Qed.

Theorem self_alias_blocks_proof : forall fair c t th l m k,
  nth_error c t = Some th -> code th = Acq l m :: k -> self_conflict th l m = true ->
  forall c', reach (ArcS fair) c c' ->
    nth_error c' t = Some th /\ step (ArcS fair) c' t = None.
Proof.
  intros fair c t th l m k Ht Hc Hs c' R.
  induction R as [c|c t0 c1 c2 Hstep R IH].
  - split; auto. unfold step. rewrite Ht, Hc. simpl.
    rewrite (self_conflict_not_grantable fair c t th l m Ht Hs). reflexivity.
  - apply IH. rewrite (step_other _ _ _ _ t Hstep); auto.
    intro; subst t0. unfold step in Hstep. rewrite Ht, Hc in Hstep. simpl in Hstep.
    rewrite (self_conflict_not_grantable fair c t th l m Ht Hs) in Hstep. discriminate.
Qed.

Theorem self_alias_panics_rc_proof : forall c t th l m k,
  nth_error c t = Some th -> code th = Acq l m :: k -> self_conflict th l m = true ->
  exists c', step RcS c t = Some c' /\ nth_error c' t = Some (mkThread [] [] true).
Proof.
  intros c t th l m k Ht Hc Hs. eexists. split.
  - unfold step. rewrite Ht, Hc. simpl.
    rewrite (self_conflict_not_grantable false c t th l m Ht Hs). reflexivity.
  - rewrite nth_upd by (eapply nth_error_lt; eauto). rewrite Nat.eqb_refl. reflexivity.
Qed.

(* ------------------------------------------------------------------------------------------ *)
(* (2) section level                                                                           *)

Section SectionProofs.
  Variable St Res : Type.
  Notation prog := (prog St Res).
  Notation sconfig := (sconfig St Res).

  Lemma single_step_is_whole_op (c : sconfig) t : all_single St Res c -> sstep St Res c t = astep St Res c t.
  Proof.
    destruct c as [h ts]. unfold all_single; simpl. intro Hs.
    destruct (nth_error ts t) as [th|] eqn:E; [|reflexivity].
    destruct (todo th) as [|p ps] eqn:Et; [reflexivity|].
    assert (single St Res p) as Hp.
    { rewrite Forall_forall in Hs. apply nth_error_In in E. specialize (Hs _ E).
      rewrite Et in Hs. inversion Hs; auto. }
    destruct p as [r|l m u nx]; simpl.
    - reflexivity.
    - simpl in Hp. destruct (Hp (h l)) as [r Hr]. rewrite Hr. simpl. reflexivity.
  Qed.

  Lemma astep_all_single (c : sconfig) t : all_single St Res c -> all_single St Res (astep St Res c t).
  Proof.
    destruct c as [h ts]. unfold all_single; simpl. intro Hs.
    destruct (nth_error ts t) as [th|] eqn:E; [|exact Hs].
    destruct (todo th) as [|p ps] eqn:Et; [exact Hs|].
    destruct (run_prog St Res p h) as [h' r]. simpl.
    apply Forall_splice; auto. simpl.
    rewrite Forall_forall in Hs. apply nth_error_In in E. specialize (Hs _ E).
    rewrite Et in Hs. inversion Hs; auto.
  Qed.

  Theorem single_section_linearizable_proof : forall (sched : list tid) (c : sconfig),
    all_single St Res c ->
    run_sched St Res sched c = run_atomic St Res sched c /\ all_single St Res (run_sched St Res sched c).
  Proof.
    induction sched as [|t r IH]; intros c Hs; simpl.
    - split; auto.
    - unfold run_sched, run_atomic in *. simpl.
      rewrite single_step_is_whole_op by auto.
      apply IH. apply astep_all_single; auto.
  Qed.
End SectionProofs.

(* ------------------------------------------------------------------------------------------ *)
(* (3) footprints                                                                              *)

Lemma flat_code_app_n : forall n a b, length a <= n ->
  flat_code a = true -> flat_code b = true -> flat_code (a ++ b) = true.
Proof.
  induction n as [|n IH]; intros a b Hl Ha Hb.
  - destruct a; simpl in *; auto; lia.
  - destruct a as [|i1 [|i2 a']]; simpl in *; auto.
    + destruct i1; discriminate.
    + destruct i1 as [l m|l m]; [|discriminate]. destruct i2 as [l' m'|l' m']; [discriminate|].
      apply andb_prop in Ha. destruct Ha as [H1 H2]. rewrite H1. simpl.
      apply IH; auto. lia.
Qed.

Lemma flat_code_app a b : flat_code a = true -> flat_code b = true -> flat_code (a ++ b) = true.
Proof. apply flat_code_app_n with (n := length a). lia. Qed.

Definition reloc (self other : loc) (l : loc) : loc := if N.eqb l 0%N then self else other.
Definition reloc_i (self other : loc) (i : instr) : instr :=
  match i with Acq l m => Acq (reloc self other l) m | Rel l m => Rel (reloc self other l) m end.

Lemma compile_reloc self other es : compile self other es = map (reloc_i self other) (compile 0%N 1%N es).
Proof.
  induction es as [|e r IH]; simpl; auto.
  destruct e as [w m|w m|]; simpl; auto; rewrite IH; destruct w; reflexivity.
Qed.

Lemma flat_code_map_n self other : forall n k, length k <= n ->
  flat_code k = true -> flat_code (map (reloc_i self other) k) = true.
Proof.
  induction n as [|n IH]; intros k Hl Hk.
  - destruct k; simpl in *; auto; lia.
  - destruct k as [|i1 [|i2 k']]; simpl in *; auto.
    + destruct i1; discriminate.
    + destruct i1 as [l m|l m]; [|discriminate]. destruct i2 as [l' m'|l' m']; [discriminate|].
      apply andb_prop in Hk. destruct Hk as [H1 H2]. apply andb_prop in H1. destruct H1 as [H1 H3].
      apply N.eqb_eq in H1. subst l'. simpl. rewrite N.eqb_refl, H3. simpl. apply IH; auto. lia.
Qed.

Lemma compile_app s o a b : compile s o (a ++ b) = compile s o a ++ compile s o b.
Proof.
  induction a as [|e r IH]; simpl; auto. destruct e; simpl; rewrite ?IH; auto.
Qed.

Lemma flat_any_locs s o es : flat_code (compile 0%N 1%N es) = true -> flat_code (compile s o es) = true.
Proof. intro H. rewrite compile_reloc. eapply flat_code_map_n; eauto. Qed.

Lemma flat_repeat s o b : flat_code (compile s o b) = true ->
  forall n, flat_code (compile s o (concat (repeat b n))) = true.
Proof.
  intros Hb n. induction n; simpl; auto. rewrite compile_app. apply flat_code_app; auto.
Qed.

(* a flat footprint compiles to flat code for every pair of locations (aliased or not) and every
   number of loop iterations *)
Theorem is_flat_sound : forall fp, is_flat fp = true ->
  forall n self other, flat_code (compile self other (unroll n fp)) = true.
Proof.
  intros fp H n s o. unfold is_flat in H. rewrite forallb_forall in H.
  unfold unroll. induction fp as [|sg r IH]; simpl; auto.
  rewrite compile_app. apply flat_code_app.
  - assert (flat_code (compile s o (seg_events sg)) = true) as Hs.
    { apply flat_any_locs. apply H. left; auto. }
    destruct sg; simpl in *; auto. apply flat_repeat; auto.
  - apply IH. intros x Hx. apply H. right; auto.
Qed.

(* a single footprint is one Acq / Rel pair on one location, whatever the iteration count *)
Theorem is_single_sound : forall fp, is_single fp = true ->
  exists l m, forall n self other,
    compile self other (unroll n fp) = [Acq (reloc self other l) m; Rel (reloc self other l) m].
Proof.
  intros fp H. unfold is_single in H.
  destruct fp as [|[es|b] [|]]; try discriminate.
  destruct (compile 0%N 1%N es) as [|[l m|l m] [|[l' m'|l' m'] [|]]] eqn:E; try discriminate.
  apply andb_prop in H. destruct H as [H1 H2]. apply N.eqb_eq in H1. apply mode_eqb_eq in H2. subst.
  exists l', m'. intros n s o. unfold unroll; simpl. rewrite app_nil_r.
  rewrite compile_reloc, E. reflexivity.
Qed.

Lemma all_fns_complete : forall f, In f all_fns.
Proof. destruct f; simpl; tauto. Qed.

Lemma by_table (Q : fn -> bool) : forallb Q all_fns = true -> forall f, Q f = true.
Proof. intros H f. rewrite forallb_forall in H. apply H. apply all_fns_complete. Qed.

Definition beq (a b : bool) : bool := if a then b else negb b.
Lemma beq_eq a b : beq a b = true -> a = b.
Proof. destruct a, b; simpl; congruence. Qed.

(* Self and Other the same container: location 0 for both *)
Theorem footprint_table_proof :
  (forall f, is_single (footprint_of f) = negb (mem f multi_section_fns)) /\
  (forall f, is_flat (footprint_of f) = negb (mem f nested_fns)) /\
  (forall f, holds_across_user (footprint_of f) = mem f user_inside_fns) /\
  (forall f, reacquires 0%N 0%N (footprint_of f) = mem f nested_fns) /\
  (forall f, mem f nested_fns = mem f self_alias_fatal_fns || mem f self_alias_recursive_read_fns).
Proof.
  split; [|split; [|split; [|split]]]; intro f; apply beq_eq; revert f; apply by_table;
    vm_compute; reflexivity.
Qed.

(* ------------------------------------------------------------------------------------------ *)
(* linking the table to the two theorems                                                       *)

(* an invocation of a table function: receiver location, argument location, loop iterations *)
Definition call := (fn * (loc * loc) * nat)%type.
Definition call_fn (o : call) : fn := fst (fst o).
Definition call_code (o : call) : list instr :=
  compile (fst (snd (fst o))) (snd (snd (fst o))) (unroll (snd o) (footprint_of (call_fn o))).
Definition script_code (ops : list call) : list instr := concat (map call_code ops).
Definition not_nested (o : call) : Prop := mem (call_fn o) nested_fns = false.

Lemma script_flat ops : Forall not_nested ops -> flat_code (script_code ops) = true.
Proof.
  induction 1 as [|o r Ho Hr IH]; simpl; auto.
  unfold script_code in *. simpl. apply flat_code_app; auto.
  unfold call_code. apply is_flat_sound.
  destruct footprint_table_proof as [_ [Hf _]]. rewrite Hf. unfold not_nested in Ho. rewrite Ho. reflexivity.
Qed.

Definition spawn (scripts : list (list call)) : config :=
  map (fun ops => mkThread [] (script_code ops) false) scripts.

Lemma spawn_fresh scripts : Forall (Forall not_nested) scripts ->
  Forall (fun th => fresh_flat th = true) (spawn scripts).
Proof.
  intro H. unfold spawn. rewrite Forall_map. eapply Forall_impl; [|exact H].
  intros ops Hops. unfold fresh_flat; simpl. apply script_flat; auto.
Qed.

Theorem table_scripts_no_deadlock_proof : forall fair scripts c,
  Forall (Forall not_nested) scripts -> reach (ArcS fair) (spawn scripts) c ->
  (unfinished c -> exists t c', step (ArcS fair) c t = Some c') /\
  (forall t, ~ clos_trans tid (waits_for fair c) t t).
Proof.
  intros fair scripts c H R. split.
  - intro U. apply (one_lock_no_deadlock_proof fair (spawn scripts) c (spawn_fresh _ H) R U).
  - apply (no_wait_for_cycle_proof fair (spawn scripts) c (spawn_fresh _ H) R).
Qed.

(* the operations of the atomicity tie *)
Definition fn_of_op (o : opd) : fn :=
  match o with
  | OPush _ => L_push | OPop => L_pop | OSize => L_size | OGet _ => L_get | OFirst => L_first
  | OLast => L_last | OContains _ => L_contains | OClear => L_clear | OSet _ _ => L_index_assign
  | OExtend _ => L_extend_tuple | OIndex _ => L_index | OInsert _ _ => L_insert | ORemove _ => L_remove
  | MInsert _ _ => M_insert | MRemove _ => M_remove | MGet _ => M_get | MContains _ => M_contains_key
  | MSize => M_size | MClear => M_clear | MGetIndex _ => M_get_index | MUpdate _ _ => M_update
  | OExtendGen _ => L_extend_gen | OResize _ _ => L_resize | OFill _ => L_fill | OReverse => L_reverse
  | OSort => L_sort | ORetainVal _ => L_retain_value | MExtendGen _ => M_extend_gen | MSort => M_sort
  end.

Definition op_is_single (o : opd) : bool := negb (mem (fn_of_op o) multi_section_fns).

Lemma op_single l o : op_is_single o = true -> single cstate res (prog_of l o).
Proof.
  destruct o; simpl; intro H; try discriminate; unfold sect1; simpl; eauto;
    match goal with |- context [if ?c then _ else _] => destruct c end; simpl; eauto.
Qed.

Theorem stress_ops_linearizable_proof : forall init (threads : list (list opd)) sched,
  Forall (Forall (fun o => op_is_single o = true)) threads ->
  run_sched cstate res sched (fun _ => init, map (fun ops => mkS (map (prog_of 0%N) ops) []) threads)
  = run_atomic cstate res sched (fun _ => init, map (fun ops => mkS (map (prog_of 0%N) ops) []) threads).
Proof.
  intros init threads sched H. apply single_section_linearizable_proof.
  unfold all_single; simpl. rewrite Forall_map. eapply Forall_impl; [|exact H].
  intros ops Hops. simpl. rewrite Forall_map. eapply Forall_impl; [|exact Hops].
  intros o Ho. apply op_single; auto.
Qed.

(* the guard modes an operation takes when it runs alone are a subsequence of its table row *)
Fixpoint table_modes (es : list ev0) : list mode :=
  match es with [] => [] | A _ m :: r => m :: table_modes r | _ :: r => table_modes r end.

Fixpoint subseq (a b : list mode) : bool :=
  match a, b with
  | [], _ => true
  | _, [] => false
  | x :: a', y :: b' => if mode_eqb x y then subseq a' b' else subseq a b'
  end.

Lemma m_get_insert m k v : m_get (m_insert m k v) k = Some v.
Proof.
  induction m as [|[k' v'] r IH]; simpl.
  - rewrite Z.eqb_refl. reflexivity.
  - destruct (Z.eqb k' k) eqn:E; simpl; rewrite E; auto.
Qed.

Theorem ops_match_table_proof : forall l o s,
  subseq (modes_alone 8 (prog_of l o) s) (table_modes (unroll 1 (footprint_of (fn_of_op o)))) = true.
Proof.
  intros l o s. destruct o; unfold prog_of, sect1, keep;
    try (cbn; repeat match goal with
           | |- context [if ?c then _ else _] => destruct c; cbn
           end; reflexivity).
  destruct s as [xs|m]; cbn.
  - reflexivity.
  - destruct (m_get m k) eqn:E; cbn; reflexivity.
Qed.

(* ------------------------------------------------------------------------------------------ *)
(* borrow pins *)
Lemma pinned_consistent_proof : forallb pin_consistent pinned_borrows = true.
Proof. vm_compute. reflexivity. Qed.
