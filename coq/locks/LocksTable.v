(* C19 — footprint table, hand-transcribed from
     crates/runtime/src/core_lib/list.rs, core_lib/map.rs, types/list.rs, types/map.rs,
     types/iterator.rs (ListIterator / MapIterator) and vm.rs (index, index-assign, access-assign,
     size, +, ==) of the pinned tree.
   Conventions: a guard created as a temporary lives to the end of the Rust statement and
   temporaries are dropped in reverse order of creation; a guard bound by `let` lives to the end of
   its block.  `User` marks foreign code (callback, overloaded operator, iterator adaptor).  A loop
   appears only where its body acquires.  DEFINITIONS ONLY. *)
From Coq Require Import List NArith Bool.
From KV.locks Require Import Locks.
Import ListNotations.

Inductive fn :=
(* core.list *)
| L_clear | L_contains | L_extend_list | L_extend_tuple | L_extend_iter | L_extend_gen | L_fill | L_first | L_get
| L_insert | L_is_empty | L_last | L_pop | L_push | L_remove | L_resize | L_resize_with
| L_retain_fn | L_retain_value | L_reverse | L_sort | L_sort_by | L_swap | L_to_tuple | L_transform
(* VM / koto.* on lists *)
| L_size | L_copy | L_index | L_index_range | L_index_assign | L_temp_index | L_slice | L_add | L_eq
| L_iter | L_display
(* core.map *)
| M_clear | M_contains_key | M_extend_map | M_extend_iter | M_extend_gen | M_get | M_get_index | M_insert
| M_is_empty | M_remove | M_sort | M_sort_by | M_update
(* VM on maps *)
| M_size | M_access | M_access_assign | M_index | M_index_assign | M_add | M_eq | M_iter.

Definition all_fns : list fn :=
  [L_clear; L_contains; L_extend_list; L_extend_tuple; L_extend_iter; L_extend_gen; L_fill; L_first; L_get;
   L_insert; L_is_empty; L_last; L_pop; L_push; L_remove; L_resize; L_resize_with;
   L_retain_fn; L_retain_value; L_reverse; L_sort; L_sort_by; L_swap; L_to_tuple; L_transform;
   L_size; L_copy; L_index; L_index_range; L_index_assign; L_temp_index; L_slice; L_add; L_eq;
   L_iter; L_display;
   M_clear; M_contains_key; M_extend_map; M_extend_iter; M_extend_gen; M_get; M_get_index; M_insert;
   M_is_empty; M_remove; M_sort; M_sort_by; M_update;
   M_size; M_access; M_access_assign; M_index; M_index_assign; M_add; M_eq; M_iter].

Definition sh := [A Self Sh; R Self Sh].
Definition ex := [A Self Ex; R Self Ex].
Definition sh_user := [A Self Sh; User; R Self Sh].
Definition ex_user := [A Self Ex; User; R Self Ex].

Definition footprint_of (f : fn) : footprint :=
  match f with
  (* l.data_mut().clear() *)
  | L_clear => [Seq ex]
  (* for candidate in l.data().iter() { vm.run_binary_op(Equal, ..) } *)
  | L_contains => [Seq sh_user]
  (* l.data_mut().extend(other.data().iter().cloned()) : receiver guard first, argument guard inside *)
  | L_extend_list => [Seq [A Self Ex; A Other Sh; R Other Sh; R Self Ex]]
  | L_extend_tuple => [Seq ex]
  (* let mut list_data = l.data_mut(); for value in iterator { .. } — the iterator over another
     list takes data() per element (ListIterator::get_output) *)
  | L_extend_iter => [Seq [A Self Ex]; Loop [A Other Sh; R Other Sh]; Seq [R Self Ex]]
  (* the same generic-iterable arm with an argument whose iterator takes no container guard (range,
     adaptor chain over a range, string, private map, generator): ONE data_mut() guard (`let mut
     list_data`) around reserve and the whole push loop; the iterator's code runs under it *)
  | L_extend_gen => [Seq ex_user]
  | L_fill => [Seq ex]
  | L_first => [Seq sh]
  | L_get => [Seq sh]
  (* if *n < 0.0 || index > l.data().len() { error }  l.data_mut().insert(index, ..) *)
  | L_insert => [Seq (sh ++ ex)]
  | L_is_empty => [Seq sh]
  | L_last => [Seq sh]
  | L_pop => [Seq ex]
  | L_push => [Seq ex]
  (* if *n < 0.0 || index >= l.data().len() { error }  l.data_mut().remove(index) *)
  | L_remove => [Seq (sh ++ ex)]
  | L_resize => [Seq ex]
  (* let len = l.len(); Greater: data_mut().truncate; Less: data_mut().reserve, then per new
     element call f (no guard) and data_mut().push *)
  | L_resize_with => [Seq (sh ++ ex); Loop [User; A Self Ex; R Self Ex]]
  (* for read_index in 0..l.len() { l.data()[read_index].clone(); f(value); l.data_mut()[w] = value }
     l.data_mut().resize(write_index) *)
  | L_retain_fn => [Seq sh; Loop [A Self Sh; R Self Sh; User; A Self Ex; R Self Ex]; Seq ex]
  (* l.data_mut().retain(|x| vm.run_binary_op(Equal, ..)) *)
  | L_retain_value => [Seq ex_user]
  | L_reverse => [Seq ex]
  (* let mut data = l.data_mut(); sort_values(vm, &mut data) *)
  | L_sort => [Seq ex_user]
  (* sort_by_key(vm, l.data().as_ref(), f)?;  l.data_mut().iter_mut().zip(sorted) *)
  | L_sort_by => [Seq (sh_user ++ ex)]
  (* std::mem::swap(a.data_mut().deref_mut(), b.data_mut().deref_mut()) *)
  | L_swap => [Seq [A Self Ex; A Other Ex; R Other Ex; R Self Ex]]
  | L_to_tuple => [Seq sh]
  (* for value in l.data_mut().iter_mut() { *value = vm.call_function(f, value) } *)
  | L_transform => [Seq ex_user]
  | L_size => [Seq sh]
  | L_copy => [Seq sh]
  (* validate_index(n, Some(l.len()))?;  l.data()[index].clone() *)
  | L_index => [Seq (sh ++ sh)]
  (* range.indices(l.len());  KList::from_slice(&l.data()[indices]) *)
  | L_index_range => [Seq (sh ++ sh)]
  (* let mut list_data = list.data_mut(); .. whole body *)
  | L_index_assign => [Seq ex]
  (* signed_index_to_unsigned(index, list.data().len());  list.data().get(index) *)
  | L_temp_index => [Seq (sh ++ sh)]
  | L_slice => [Seq (sh ++ sh)]
  (* a.data().iter().chain(b.data().iter()).cloned().collect() *)
  | L_add => [Seq [A Self Sh; A Other Sh; R Other Sh; R Self Sh]]
  (* let data_a = a.data(); let data_b = b.data(); compare_value_ranges(..) *)
  | L_eq => [Seq [A Self Sh; A Other Sh; User; R Other Sh; R Self Sh]]
  (* ListIterator::new: list.len();  next(): list.data().get(index) per element *)
  | L_iter => [Seq sh; Loop sh]
  (* for value in self.data().iter() { value.display(ctx) } *)
  | L_display => [Seq sh_user]
  | M_clear => [Seq ex]
  | M_contains_key => [Seq sh]
  (* m.data_mut().extend(other.data().iter().map(..)) *)
  | M_extend_map => [Seq [A Self Ex; A Other Sh; R Other Sh; R Self Ex]]
  | M_extend_iter => [Seq [A Self Ex]; Loop [A Other Sh; R Other Sh]; Seq [R Self Ex]]
  (* generic-iterable arm, guard-free iterator: `let mut map_data = m.data_mut()` around the loop *)
  | M_extend_gen => [Seq ex_user]
  | M_get => [Seq sh]
  | M_get_index => [Seq sh]
  | M_insert => [Seq ex]
  | M_is_empty => [Seq sh]
  | M_remove => [Seq ex]
  | M_sort => [Seq ex]
  (* ValueMap::with_capacity(m.len());  m.data_mut().sort_by(|..| vm.call_function(f, ..)) *)
  | M_sort_by => [Seq (sh ++ ex_user)]
  (* do_map_update (after fix 3c98e6d): match map.get(&key) { Some(v) => v, None => { map.data_mut()
     .insert(key, default); default } };  f(value) (no guard);  map.data_mut().insert(key, new) *)
  | M_update => [Seq (sh ++ ex ++ [User] ++ ex)]
  | M_size => [Seq sh]
  | M_access => [Seq sh]
  | M_access_assign => [Seq ex]
  (* let entries = m.data(); validate_index(n, entries.len()); entries.get_index(index) *)
  | M_index => [Seq sh]
  | M_index_assign => [Seq ex]
  (* let mut data = a.data().clone();  data.extend(b.data().iter()..) *)
  | M_add => [Seq ([A Self Sh; R Self Sh] ++ [A Other Sh; R Other Sh])]
  (* compare_value_maps: a.len(); b.len(); for (k, v) in map_a.data().iter() { map_b.get(k); == } *)
  | M_eq => [Seq ([A Self Sh; R Self Sh] ++ [A Other Sh; R Other Sh]);
             Seq [A Self Sh]; Loop [A Other Sh; R Other Sh; User]; Seq [R Self Sh]]
  | M_iter => [Seq sh; Loop sh]
  end.

Definition fn_eqb (a b : fn) : bool :=
  match a, b with
  | L_clear, L_clear | L_contains, L_contains | L_extend_list, L_extend_list
  | L_extend_tuple, L_extend_tuple | L_extend_iter, L_extend_iter | L_extend_gen, L_extend_gen
  | M_extend_gen, M_extend_gen | L_fill, L_fill
  | L_first, L_first | L_get, L_get | L_insert, L_insert | L_is_empty, L_is_empty
  | L_last, L_last | L_pop, L_pop | L_push, L_push | L_remove, L_remove | L_resize, L_resize
  | L_resize_with, L_resize_with | L_retain_fn, L_retain_fn | L_retain_value, L_retain_value
  | L_reverse, L_reverse | L_sort, L_sort | L_sort_by, L_sort_by | L_swap, L_swap
  | L_to_tuple, L_to_tuple | L_transform, L_transform | L_size, L_size | L_copy, L_copy
  | L_index, L_index | L_index_range, L_index_range | L_index_assign, L_index_assign
  | L_temp_index, L_temp_index | L_slice, L_slice | L_add, L_add | L_eq, L_eq | L_iter, L_iter
  | L_display, L_display | M_clear, M_clear | M_contains_key, M_contains_key
  | M_extend_map, M_extend_map | M_extend_iter, M_extend_iter | M_get, M_get
  | M_get_index, M_get_index | M_insert, M_insert | M_is_empty, M_is_empty | M_remove, M_remove
  | M_sort, M_sort | M_sort_by, M_sort_by | M_update, M_update | M_size, M_size
  | M_access, M_access | M_access_assign, M_access_assign | M_index, M_index
  | M_index_assign, M_index_assign | M_add, M_add | M_eq, M_eq | M_iter, M_iter => true
  | _, _ => false
  end.

Definition mem (f : fn) (fs : list fn) : bool := existsb (fn_eqb f) fs.

(* ---- the exceptions, listed explicitly -------------------------------------------------- *)

(* more than one critical section: another thread's section can run in between.
   check-then-act (can PANIC inside Vec when the container shrank in between):
       L_insert L_remove L_index L_index_range L_retain_fn
   read-then-write (lost update / mixed snapshot):
       L_sort_by L_retain_fn L_resize_with M_update M_sort_by
   several reads that need not be one snapshot:
       L_temp_index L_slice L_iter M_iter M_add M_eq *)
Definition multi_section_fns : list fn :=
  [L_extend_list; L_extend_iter; L_insert; L_remove; L_resize_with; L_retain_fn; L_sort_by; L_swap;
   L_index; L_index_range; L_temp_index; L_slice; L_add; L_eq; L_iter;
   M_extend_map; M_extend_iter; M_sort_by; M_update; M_add; M_eq; M_iter].

(* a second guard is requested while one is alive: lock-order deadlocks between two containers,
   and self-deadlock (arc) / BorrowError panic (rc) when receiver and argument are the same *)
Definition nested_fns : list fn :=
  [L_extend_list; L_extend_iter; L_swap; L_add; L_eq; M_extend_map; M_extend_iter; M_eq].

(* among them: exclusive involved when Self = Other (always blocks / panics) *)
Definition self_alias_fatal_fns : list fn :=
  [L_extend_list; L_extend_iter; L_swap; M_extend_map; M_extend_iter].

(* among them: shared taken twice when Self = Other (fine under rc and under a non-fair lock;
   deadlocks under parking_lot's fair policy when a writer parks in between) *)
Definition self_alias_recursive_read_fns : list fn := [L_add; L_eq; M_eq].

(* foreign code runs while a guard is alive: flat only if that code takes no container guard
   (true for numbers / strings / bools; not for callbacks that touch the same container) *)
Definition user_inside_fns : list fn :=
  [L_contains; L_extend_gen; L_retain_value; L_sort; L_sort_by; L_transform; L_eq; L_display;
   M_extend_gen; M_sort_by; M_eq].

(* ---- borrow pins ---------------------------------------------------------------------------
   What tools/k2v_locks.py extracts from the TEXT of each core-library arm (GenBorrows.v, rebuilt
   from the checkout on every run): the borrows in textual order, each with its mode and whether it
   is taken INSIDE the body of a `for` loop of that arm (a borrow in a `for` header is evaluated
   once).  Sh also for the KList/KMap helpers that borrow internally (`l.len()`, `m.is_empty()`,
   `map.get(..)`).  Alternative match branches of one arm all appear (path-insensitive).
   This pinned copy must be EQUAL to the regenerated table (theorem borrow_pins_match): a borrow that
   moves into a loop body, appears or disappears breaks the obligation. *)
Definition pin := (fn * list (mode * bool))%type.

Definition pinned_borrows : list pin :=
  [ (L_clear, [(Ex, false)]);
    (L_contains, [(Sh, false)]);
    (L_extend_list, [(Ex, false); (Sh, false)]);
    (L_extend_tuple, [(Ex, false)]);
    (L_extend_gen, [(Ex, false)]);
    (L_fill, [(Ex, false)]);
    (L_first, [(Sh, false)]);
    (L_get, [(Sh, false)]);
    (L_insert, [(Sh, false); (Ex, false)]);
    (L_is_empty, [(Sh, false)]);
    (L_last, [(Sh, false)]);
    (L_pop, [(Ex, false)]);
    (L_push, [(Ex, false)]);
    (L_remove, [(Sh, false); (Ex, false)]);
    (L_resize, [(Ex, false)]);
    (L_resize, [(Ex, false)]);
    (L_resize_with, [(Sh, false); (Ex, false); (Ex, false); (Ex, true)]);
    (L_retain_fn, [(Sh, false); (Sh, true); (Ex, true); (Ex, false)]);
    (L_retain_value, [(Ex, false)]);
    (L_reverse, [(Ex, false)]);
    (L_sort, [(Ex, false)]);
    (L_sort_by, [(Sh, false); (Ex, false)]);
    (L_swap, [(Ex, false); (Ex, false)]);
    (L_to_tuple, [(Sh, false)]);
    (L_transform, [(Ex, false)]);
    (M_clear, [(Ex, false)]);
    (M_contains_key, [(Sh, false)]);
    (M_extend_map, [(Ex, false); (Sh, false)]);
    (M_extend_gen, [(Ex, false)]);
    (M_get, [(Sh, false)]);
    (M_get_index, [(Sh, false)]);
    (M_insert, [(Ex, false)]);
    (M_insert, [(Ex, false)]);
    (M_is_empty, [(Sh, false)]);
    (M_remove, [(Ex, false)]);
    (M_sort, [(Ex, false)]);
    (M_sort_by, [(Sh, false); (Ex, false)]);
    (M_update, [(Sh, false); (Ex, false); (Ex, false)]) ].

(* what the footprint row says about the same arm: acquisitions in order, flagged when they sit
   in a Loop segment *)
Definition seg_acqs (s : seg) : list (mode * bool) :=
  match s with
  | Seq es => flat_map (fun e => match e with A _ m => [(m, false)] | _ => [] end) es
  | Loop b => flat_map (fun e => match e with A _ m => [(m, true)] | _ => [] end) b
  end.
Definition row_acqs (f : fn) : list (mode * bool) := flat_map seg_acqs (footprint_of f).

Definition mb_eqb (a b : mode * bool) : bool := mode_eqb (fst a) (fst b) && Bool.eqb (snd a) (snd b).

Fixpoint subseq_mb (a b : list (mode * bool)) : bool :=
  match a, b with
  | [], _ => true
  | _, [] => false
  | x :: a', y :: b' => if mb_eqb x y then subseq_mb a' b' else subseq_mb a b'
  end.

(* a pin agrees with its row: the row's acquisitions (with their in-loop flags) are a subsequence
   of the textual scan (extra entries = alternative branches); the scan has a borrow inside a loop
   body iff the row has a Loop that acquires; a single-section row has exactly one borrow in its arm *)
Definition pin_consistent (p : pin) : bool :=
  let f := fst p in let scan := snd p in
  subseq_mb (row_acqs f) scan
  && Bool.eqb (existsb snd scan) (existsb snd (row_acqs f))
  && (negb (is_single (footprint_of f)) || Nat.eqb (length scan) 1).

Fixpoint pins_eqb (a b : list pin) : bool :=
  match a, b with
  | [], [] => true
  | (f, s) :: a', (g, t) :: b' =>
      fn_eqb f g && Nat.eqb (length s) (length t) && forallb (fun xy => mb_eqb (fst xy) (snd xy)) (combine s t)
      && pins_eqb a' b'
  | _, _ => false
  end.
