(* C19 — lock footprints of koto's shared containers.   MODEL (definitions only, executable).

   Every KList / KMap is a `PtrMut<T> = Ptr<KCell<T>>` (crates/memory/src/ptr_mut.rs).  `KCell` wraps
     rc  : std::cell::RefCell      borrow()/borrow_mut() PANIC when the borrow is not available
     arc : parking_lot::RwLock     borrow() = read(), borrow_mut() = write() BLOCK until available;
                                   the lock is NOT re-entrant and uses a task-fair policy: a read()
                                   blocks while a writer is parked on the lock
   (crates/memory/src/ptr_impl/{rc,arc}.rs).  `KList::data()`/`KMap::data()` = borrow() = SHARED,
   `data_mut()` = borrow_mut() = EXCLUSIVE; the guard lives until the end of the enclosing Rust
   statement (temporaries) or binding (`let`).

   Three layers:
   (1) lock level  : threads are sequences of Acq/Rel on locations; `step` grants per strategy.
                     Used for deadlock / blocking theorems.
   (2) section level: an operation is a resumption `prog`: a chain of critical sections, each
                     reading / updating ONE container atomically and choosing the continuation from
                     what it read.  A schedule (list of thread ids) runs one critical section per
                     entry: every interleaving of critical sections is some schedule.  That a
                     critical section IS atomic (mutual exclusion by RwLock) is the trusted part.
   (3) footprint table: for every core-library / VM operation on a list or map the sequence of
                     acquisitions and releases transcribed from the Rust source. *)
From Coq Require Import List NArith ZArith Bool Arith Lia.
Import ListNotations.

Definition loc := N.
Definition tid := nat.

Inductive mode := Sh | Ex.

Definition mode_eqb (a b : mode) : bool :=
  match a, b with Sh, Sh => true | Ex, Ex => true | _, _ => false end.

(* ------------------------------------------------------------------------------------------ *)
(* (1) lock level                                                                              *)

Inductive instr := Acq (l : loc) (m : mode) | Rel (l : loc) (m : mode).

(* rc: RefCell (single thread, panics);  arc: RwLock, `fair` = a waiting writer blocks new readers
   (parking_lot's documented policy; `ArcS false` is a plain reader-preference lock) *)
Inductive strategy := RcS | ArcS (fair : bool).

Record thread := mkThread {
  held : list (loc * mode);      (* guards currently alive, most recent first *)
  code : list instr;             (* what is left to do *)
  dead : bool                    (* rc only: unwound by a BorrowError / BorrowMutError panic *)
}.

Definition config := list thread.

Definition holds_loc (th : thread) (l : loc) : bool :=
  existsb (fun h => N.eqb (fst h) l) (held th).

Definition holds_ex (th : thread) (l : loc) : bool :=
  existsb (fun h => N.eqb (fst h) l && mode_eqb (snd h) Ex) (held th).

Definition held_by_any (c : config) (l : loc) : bool := existsb (fun th => holds_loc th l) c.
Definition ex_held (c : config) (l : loc) : bool := existsb (fun th => holds_ex th l) c.

Definition at_acq_ex (th : thread) (l : loc) : bool :=
  match code th with
  | Acq l' Ex :: _ => N.eqb l' l
  | _ => false
  end.

(* some thread other than t is parked in write() on l *)
Fixpoint writer_parked_from (i : nat) (c : config) (call : config) (t : tid) (l : loc) : bool :=
  match c with
  | [] => false
  | th :: r => (negb (Nat.eqb i t) && at_acq_ex th l && held_by_any call l)
               || writer_parked_from (S i) r call t l
  end.
Definition writer_parked (c : config) (t : tid) (l : loc) : bool := writer_parked_from 0 c c t l.

(* the requesting thread's own guards count: neither RefCell nor RwLock is re-entrant *)
Definition grantable (fair : bool) (c : config) (t : tid) (l : loc) (m : mode) : bool :=
  match m with
  | Ex => negb (held_by_any c l)
  | Sh => negb (ex_held c l) && negb (fair && writer_parked c t l)
  end.

Definition upd (c : config) (t : tid) (th : thread) : config :=
  firstn t c ++ th :: skipn (S t) c.

Fixpoint remove_guard (l : loc) (m : mode) (hs : list (loc * mode)) : list (loc * mode) :=
  match hs with
  | [] => []
  | (l', m') :: r => if N.eqb l' l && mode_eqb m' m then r else (l', m') :: remove_guard l m r
  end.

Definition fair_of (s : strategy) : bool := match s with RcS => false | ArcS f => f end.

(* one step of thread t; None = finished, blocked (arc) or no such thread *)
Definition step (s : strategy) (c : config) (t : tid) : option config :=
  match nth_error c t with
  | None => None
  | Some th =>
    match code th with
    | [] => None
    | Acq l m :: k =>
        if grantable (fair_of s) c t l m
        then Some (upd c t (mkThread ((l, m) :: held th) k (dead th)))
        else match s with
             | RcS => Some (upd c t (mkThread [] [] true))   (* panic; unwinding drops the guards *)
             | ArcS _ => None                                 (* parked *)
             end
    | Rel l m :: k => Some (upd c t (mkThread (remove_guard l m (held th)) k (dead th)))
    end
  end.

Fixpoint run_steps (s : strategy) (c : config) (sched : list tid) : config :=
  match sched with
  | [] => c
  | t :: r => match step s c t with
              | Some c' => run_steps s c' r
              | None => run_steps s c r
              end
  end.

Inductive reach (s : strategy) : config -> config -> Prop :=
| reach_refl : forall c, reach s c c
| reach_step : forall c t c' c'', step s c t = Some c' -> reach s c' c'' -> reach s c c''.

Definition unfinished (c : config) : Prop :=
  exists t th, nth_error c t = Some th /\ code th <> [].

Definition all_stuck (s : strategy) (c : config) : Prop := forall t, step s c t = None.

(* a thread's code never acquires while holding: a sequence of Acq l m; Rel l m pairs *)
Fixpoint flat_code (k : list instr) : bool :=
  match k with
  | [] => true
  | Acq l m :: Rel l' m' :: k' => N.eqb l l' && mode_eqb m m' && flat_code k'
  | _ => false
  end.

Definition fresh_flat (th : thread) : bool :=
  match held th with [] => flat_code (code th) | _ => false end.

(* wait-for graph *)
Definition blocked_at (fair : bool) (c : config) (t : tid) (l : loc) (m : mode) : Prop :=
  exists th k, nth_error c t = Some th /\ code th = Acq l m :: k /\ grantable fair c t l m = false.

Definition waits_for (fair : bool) (c : config) (t t' : tid) : Prop :=
  exists l m, blocked_at fair c t l m /\
    exists th', nth_error c t' = Some th' /\
      (holds_loc th' l = true
       \/ (fair = true /\ m = Sh /\ t' <> t /\ at_acq_ex th' l = true /\ held_by_any c l = true)).

(* ------------------------------------------------------------------------------------------ *)
(* (2) section level                                                                           *)

Section Sections.
  Variable St : Type.      (* abstract contents of a container *)
  Variable Res : Type.     (* what an operation returns (value, error class or panic) *)

  (* an operation in progress: either finished, or its next critical section on location l:
     inside, it sees the contents s, leaves `update s` behind and continues as `next s` *)
  Inductive prog :=
  | Ret (r : Res)
  | Sect (l : loc) (m : mode) (update : St -> St) (next : St -> prog).

  Definition heap := loc -> St.
  Definition hupd (h : heap) (l : loc) (s : St) : heap := fun l' => if N.eqb l' l then s else h l'.

  (* whole operation, nothing in between (the sequential meaning) *)
  Fixpoint run_prog (p : prog) (h : heap) : heap * Res :=
    match p with
    | Ret r => (h, r)
    | Sect l m u nx => run_prog (nx (h l)) (hupd h l (u (h l)))
    end.

  Record sthread := mkS { todo : list prog; results : list Res (* most recent first *) }.
  Definition sconfig := (heap * list sthread)%type.

  Definition supd (ts : list sthread) (t : tid) (th : sthread) := firstn t ts ++ th :: skipn (S t) ts.

  (* ONE critical section of thread t (an operation without sections completes in its slot) *)
  Definition sstep (c : sconfig) (t : tid) : sconfig :=
    let (h, ts) := c in
    match nth_error ts t with
    | None => c
    | Some th =>
      match todo th with
      | [] => c
      | Ret r :: ps => (h, supd ts t (mkS ps (r :: results th)))
      | Sect l m u nx :: ps =>
          let s := h l in
          match nx s with
          | Ret r => (hupd h l (u s), supd ts t (mkS ps (r :: results th)))
          | p' => (hupd h l (u s), supd ts t (mkS (p' :: ps) (results th)))
          end
      end
    end.

  (* ONE WHOLE operation of thread t *)
  Definition astep (c : sconfig) (t : tid) : sconfig :=
    let (h, ts) := c in
    match nth_error ts t with
    | None => c
    | Some th =>
      match todo th with
      | [] => c
      | p :: ps => let (h', r) := run_prog p h in (h', supd ts t (mkS ps (r :: results th)))
      end
    end.

  Definition run_sched (sched : list tid) (c : sconfig) : sconfig := fold_left sstep sched c.
  Definition run_atomic (order : list tid) (c : sconfig) : sconfig := fold_left astep order c.

  (* at most one critical section, whatever it reads *)
  Definition single (p : prog) : Prop :=
    match p with
    | Ret _ => True
    | Sect _ _ _ nx => forall s, exists r, nx s = Ret r
    end.

  Definition all_single (c : sconfig) : Prop :=
    Forall (fun th => Forall single (todo th)) (snd c).

  (* a shared section must not write *)
  Fixpoint respects_modes (fuel : nat) (p : prog) (probe : list St) : bool :=
    match fuel with
    | O => true
    | S f => match p with
             | Ret _ => true
             | Sect _ m _ nx => forallb (fun s => respects_modes f (nx s) probe) probe
             end
    end.
End Sections.

Arguments Ret {St Res}.
Arguments Sect {St Res}.
Arguments mkS {St Res}.
Arguments todo {St Res}.
Arguments results {St Res}.

(* ------------------------------------------------------------------------------------------ *)
(* (3) footprints                                                                              *)

Inductive who := Self | Other.     (* the receiver / the container passed as argument *)

Inductive ev0 :=
| A (w : who) (m : mode)           (* data() / data_mut() guard created *)
| R (w : who) (m : mode)           (* guard dropped *)
| User.                            (* foreign code runs here: callback, overloaded operator, iterator *)

Inductive seg :=
| Seq (es : list ev0)
| Loop (body : list ev0).          (* body executed 0..n times *)

Definition footprint := list seg.

Definition seg_unroll (n : nat) (s : seg) : list ev0 :=
  match s with Seq es => es | Loop b => concat (repeat b n) end.

Definition unroll (n : nat) (fp : footprint) : list ev0 := flat_map (seg_unroll n) fp.

Definition wloc (self other : loc) (w : who) : loc := match w with Self => self | Other => other end.

Fixpoint compile (self other : loc) (es : list ev0) : list instr :=
  match es with
  | [] => []
  | A w m :: r => Acq (wloc self other w) m :: compile self other r
  | R w m :: r => Rel (wloc self other w) m :: compile self other r
  | User :: r => compile self other r
  end.

Definition seg_events (s : seg) : list ev0 := match s with Seq es => es | Loop b => b end.

(* no guard is alive when another is requested, and none survives a segment boundary *)
Definition is_flat (fp : footprint) : bool :=
  forallb (fun s => flat_code (compile 0%N 1%N (seg_events s))) fp.

(* exactly one critical section, no repetition *)
Definition is_single (fp : footprint) : bool :=
  match fp with
  | [Seq es] => match compile 0%N 1%N es with
                | [Acq l m; Rel l' m'] => N.eqb l l' && mode_eqb m m'
                | _ => false
                end
  | _ => false
  end.

(* foreign code runs while a guard is alive *)
Fixpoint user_inside_from (depth : nat) (es : list ev0) : bool :=
  match es with
  | [] => false
  | A _ _ :: r => user_inside_from (S depth) r
  | R _ _ :: r => user_inside_from (pred depth) r
  | User :: r => negb (Nat.eqb depth 0) || user_inside_from depth r
  end.
Definition holds_across_user (fp : footprint) : bool := user_inside_from 0 (unroll 1 fp).

(* same location acquired again while a guard on it is alive (when Self and Other alias, or twice Self) *)
Fixpoint reacquires_from (alive : list loc) (k : list instr) : bool :=
  match k with
  | [] => false
  | Acq l m :: r => existsb (N.eqb l) alive || reacquires_from (l :: alive) r
  | Rel l m :: r => reacquires_from (remove N.eq_dec l alive) r
  end.
Definition reacquires (self other : loc) (fp : footprint) : bool :=
  reacquires_from [] (compile self other (unroll 1 fp)).
