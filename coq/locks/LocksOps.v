(* C19 — what is computed inside the critical sections of the operations used by the atomicity tie
   (kh_arc): impl-shaped resumptions over an abstract list / insertion-ordered map of integers.
   Rust panics are explicit outcomes (RPanic): Vec::insert / Vec::remove / slice indexing assert
   their index against the length seen INSIDE the second section.
   DEFINITIONS ONLY. *)
From Coq Require Import List NArith ZArith Bool.
From KV.locks Require Import Locks.
Import ListNotations.
Local Open Scope Z_scope.

Inductive cstate := CL (xs : list Z) | CM (kvs : list (Z * Z)).

Inductive res :=
| RNull | RInt (z : Z) | RBool (b : bool) | RPair (k v : Z)
| RSelf        (* the container itself is returned (rendered later, outside any guard: not compared) *)
| RErr         (* a koto runtime error (index out of bounds, ...) *)
| RPanic.      (* a Rust panic inside the runtime *)

Definition P := prog cstate res.

Definition zlen (xs : list Z) : Z := Z.of_nat (length xs).
Definition znth (xs : list Z) (i : Z) : option Z := nth_error xs (Z.to_nat i).

Definition xs_of (s : cstate) : list Z := match s with CL xs => xs | CM _ => [] end.
Definition kvs_of (s : cstate) : list (Z * Z) := match s with CM m => m | CL _ => [] end.
Definition onl (f : list Z -> list Z) (s : cstate) : cstate := match s with CL xs => CL (f xs) | _ => s end.
Definition onm (f : list (Z * Z) -> list (Z * Z)) (s : cstate) : cstate :=
  match s with CM m => CM (f m) | _ => s end.
Definition keep (s : cstate) : cstate := s.

Definition opt_res (o : option Z) : res := match o with Some z => RInt z | None => RNull end.

Fixpoint set_nth (xs : list Z) (i : nat) (v : Z) : list Z :=
  match xs, i with
  | [], _ => []
  | _ :: r, O => v :: r
  | x :: r, S j => x :: set_nth r j v
  end.

Definition insert_at (xs : list Z) (i : nat) (v : Z) : list Z := firstn i xs ++ v :: skipn i xs.
Definition remove_at (xs : list Z) (i : nat) : list Z := firstn i xs ++ skipn (S i) xs.

Fixpoint m_get (m : list (Z * Z)) (k : Z) : option Z :=
  match m with
  | [] => None
  | (k', v) :: r => if Z.eqb k' k then Some v else m_get r k
  end.

(* IndexMap::insert: replace in place, or append *)
Fixpoint m_insert (m : list (Z * Z)) (k v : Z) : list (Z * Z) :=
  match m with
  | [] => [(k, v)]
  | (k', v') :: r => if Z.eqb k' k then (k', v) :: r else (k', v') :: m_insert r k v
  end.

(* IndexMap::shift_remove: order of the rest preserved *)
Fixpoint m_remove (m : list (Z * Z)) (k : Z) : list (Z * Z) :=
  match m with
  | [] => []
  | (k', v') :: r => if Z.eqb k' k then r else (k', v') :: m_remove r k
  end.

Fixpoint z_insert_sorted (x : Z) (xs : list Z) : list Z :=
  match xs with
  | [] => [x]
  | y :: r => if y <=? x then y :: z_insert_sorted x r else x :: y :: r
  end.
Definition z_sort (xs : list Z) : list Z := fold_left (fun acc x => z_insert_sorted x acc) xs [].

Fixpoint kv_insert_sorted (kv : Z * Z) (m : list (Z * Z)) : list (Z * Z) :=
  match m with
  | [] => [kv]
  | y :: r => if fst y <=? fst kv then y :: kv_insert_sorted kv r else kv :: y :: r
  end.
Definition kv_sort (m : list (Z * Z)) : list (Z * Z) := fold_left (fun acc kv => kv_insert_sorted kv acc) m [].

Definition resize_to (xs : list Z) (n : nat) (v : Z) : list Z := firstn n xs ++ repeat v (n - length xs).

Inductive opd :=
| OPush (v : Z) | OPop | OSize | OGet (i : Z) | OFirst | OLast | OContains (v : Z) | OClear
| OSet (i v : Z) | OExtend (vs : list Z)
| OIndex (i : Z) | OInsert (i v : Z) | ORemove (i : Z)
| MInsert (k v : Z) | MRemove (k : Z) | MGet (k : Z) | MContains (k : Z) | MSize | MClear
| MGetIndex (i : Z) | MUpdate (k d : Z)
(* compound (multi-element) mutations: ONE step of the shared-state machine each *)
| OExtendGen (vs : list Z) | OResize (n v : Z) | OFill (v : Z) | OReverse | OSort | ORetainVal (v : Z)
| MExtendGen (kvs : list (Z * Z)) | MSort.

Definition sect1 (l : loc) (m : mode) (u : cstate -> cstate) (r : cstate -> res) : P :=
  Sect l m u (fun s => Ret (r s)).

Definition prog_of (l : loc) (o : opd) : P :=
  match o with
  (* list.push: l.data_mut().push(value) *)
  | OPush v => sect1 l Ex (onl (fun xs => xs ++ [v])) (fun _ => RSelf)
  (* list.pop: l.data_mut().pop() *)
  | OPop => sect1 l Ex (onl (fun xs => removelast xs))
                  (fun s => match xs_of s with [] => RNull | x :: r => RInt (last r x) end)
  (* size: l.len() *)
  | OSize => sect1 l Sh keep (fun s => RInt (zlen (xs_of s)))
  (* list.get: if index >= 0 { list.data().get(index) } else default *)
  | OGet i => if i <? 0 then Ret RNull
              else sect1 l Sh keep (fun s => opt_res (znth (xs_of s) i))
  | OFirst => sect1 l Sh keep (fun s => opt_res (hd_error (xs_of s)))
  | OLast => sect1 l Sh keep
                   (fun s => match xs_of s with [] => RNull | x :: r => RInt (last r x) end)
  (* list.contains on numbers: one data() guard around the whole scan *)
  | OContains v => sect1 l Sh keep (fun s => RBool (existsb (Z.eqb v) (xs_of s)))
  | OClear => sect1 l Ex (onl (fun _ => [])) (fun _ => RSelf)
  (* l[i] = v : run_index_assign, one data_mut() guard around check and store *)
  | OSet i v => sect1 l Ex
                  (onl (fun xs => if (0 <=? i) && (i <? zlen xs) then set_nth xs (Z.to_nat i) v else xs))
                  (fun s => if (0 <=? i) && (i <? zlen (xs_of s)) then RInt v else RErr)
  (* list.extend with a tuple / a list nobody else can reach *)
  | OExtend vs => sect1 l Ex (onl (fun xs => xs ++ vs)) (fun _ => RSelf)
  (* l[i] : validate_index(n, Some(l.len()))?  THEN  l.data()[index] (panics when out of range) *)
  | OIndex i =>
      Sect l Sh keep (fun s =>
        if (i <? 0) || (zlen (xs_of s) <=? i) then Ret RErr
        else sect1 l Sh keep (fun s2 => match znth (xs_of s2) i with Some x => RInt x | None => RPanic end))
  (* list.insert: if n < 0 || index > l.data().len() { error }  THEN  l.data_mut().insert(index, v) *)
  | OInsert i v =>
      if i <? 0 then Ret RErr
      else Sect l Sh keep (fun s =>
        if zlen (xs_of s) <? i then Ret RErr
        else sect1 l Ex
               (onl (fun xs => if i <=? zlen xs then insert_at xs (Z.to_nat i) v else xs))
               (fun s2 => if i <=? zlen (xs_of s2) then RSelf else RPanic))
  (* list.remove: if n < 0 || index >= l.data().len() { error }  THEN  l.data_mut().remove(index) *)
  | ORemove i =>
      if i <? 0 then Ret RErr
      else Sect l Sh keep (fun s =>
        if zlen (xs_of s) <=? i then Ret RErr
        else sect1 l Ex
               (onl (fun xs => if i <? zlen xs then remove_at xs (Z.to_nat i) else xs))
               (fun s2 => match znth (xs_of s2) i with Some x => RInt x | None => RPanic end))
  (* map.insert: m.data_mut().insert(key, value) -> old value *)
  | MInsert k v => sect1 l Ex (onm (fun m => m_insert m k v)) (fun s => opt_res (m_get (kvs_of s) k))
  (* map.remove: m.data_mut().shift_remove(key) *)
  | MRemove k => sect1 l Ex (onm (fun m => m_remove m k)) (fun s => opt_res (m_get (kvs_of s) k))
  | MGet k => sect1 l Sh keep (fun s => opt_res (m_get (kvs_of s) k))
  | MContains k => sect1 l Sh keep
                         (fun s => RBool (match m_get (kvs_of s) k with Some _ => true | None => false end))
  | MSize => sect1 l Sh keep (fun s => RInt (Z.of_nat (length (kvs_of s))))
  | MClear => sect1 l Ex (onm (fun _ => [])) (fun _ => RSelf)
  | MGetIndex i => if i <? 0 then Ret RNull
                   else sect1 l Sh keep (fun s => match nth_error (kvs_of s) (Z.to_nat i) with
                                                  | Some (k, v) => RPair k v
                                                  | None => RNull
                                                  end)
  (* map.update k, 0, |x| x + d  (do_map_update): get / [insert default] / call f without a guard /
     insert the new value *)
  | MUpdate k d =>
      let fin (x : Z) : P := sect1 l Ex (onm (fun m => m_insert m k (x + d))) (fun _ => RInt (x + d)) in
      Sect l Sh keep (fun s =>
        match m_get (kvs_of s) k with
        | Some x => fin x
        | None => Sect l Ex (onm (fun m => m_insert m k 0)) (fun _ => fin 0)
        end)
  (* list.extend, generic-iterable arm, iterator takes no guard: `let mut list_data = l.data_mut()`
     around reserve and every push *)
  | OExtendGen vs => sect1 l Ex (onl (fun xs => xs ++ vs)) (fun _ => RSelf)
  (* list.resize: negative size is an error before any guard; l.data_mut().resize(n, value) *)
  | OResize n v => if n <? 0 then Ret RErr
                   else sect1 l Ex (onl (fun xs => resize_to xs (Z.to_nat n) v)) (fun _ => RSelf)
  (* list.fill: for v in l.data_mut().iter_mut() *)
  | OFill v => sect1 l Ex (onl (fun xs => map (fun _ => v) xs)) (fun _ => RSelf)
  | OReverse => sect1 l Ex (onl (fun xs => rev xs)) (fun _ => RSelf)
  (* list.sort on numbers: let mut data = l.data_mut(); sort_values(..) *)
  | OSort => sect1 l Ex (onl z_sort) (fun _ => RSelf)
  (* list.retain value: l.data_mut().retain(|x| x == value) *)
  | ORetainVal v => sect1 l Ex (onl (fun xs => filter (Z.eqb v) xs)) (fun _ => RSelf)
  (* map.extend, generic-iterable arm: `let mut map_data = m.data_mut()` around every insert *)
  | MExtendGen kvs => sect1 l Ex (onm (fun m => fold_left (fun acc kv => m_insert acc (fst kv) (snd kv)) kvs m))
                            (fun _ => RSelf)
  (* map.sort: m.data_mut().sort_by(key order) (stable) *)
  | MSort => sect1 l Ex (onm kv_sort) (fun _ => RSelf)
  end.

(* the sequence of guard modes an operation takes when it runs alone on contents s
   (compared with the footprint table) *)
Fixpoint modes_alone (fuel : nat) (p : P) (s : cstate) : list mode :=
  match fuel with
  | O => []
  | S f => match p with
           | Ret _ => []
           | Sect _ m u nx => m :: modes_alone f (nx s) (u s)
           end
  end.
