(* C14 — proofs about numbers: f64 comparison is a total preorder off NaN, `i64 as f64` is monotone,
   KNumber's == / < laws, byte-wise string order. *)
From Coq Require Import ZArith List Bool Lia Reals Lra.
From Flocq Require Import Core IEEE754.Binary IEEE754.Bits IEEE754.BinarySingleNaN.
From KV.val Require Import ValModel ValSpec.
Import ListNotations.
Open Scope Z_scope.

(* ------------------------------------------------------------------ f64 comparison *)

Definition sf (a : f64) : SpecFloat.spec_float := B2SF (Binary.B2BSN 53 1024 a).

Lemma fcmp_sf : forall a b, fcmp a b = SpecFloat.SFcompare (sf a) (sf b).
Proof. reflexivity. Qed.

Definition sf_nan (x : SpecFloat.spec_float) : bool :=
  match x with SpecFloat.S754_nan => true | _ => false end.

Lemma sf_nan_is_nan : forall a, sf_nan (sf a) = f_is_nan a.
Proof. destruct a; reflexivity. Qed.

Ltac cmp_cases :=
  repeat match goal with
  | H : context [(?a ?= ?b)%Z] |- _ => destruct (Z.compare_spec a b)
  | |- context [(?a ?= ?b)%Z] => destruct (Z.compare_spec a b)
  | H : context [Pos.compare_cont Eq ?a ?b] |- _ =>
      change (Pos.compare_cont Eq a b) with (Pos.compare a b) in *; destruct (Pos.compare_spec a b)
  | |- context [Pos.compare_cont Eq ?a ?b] =>
      change (Pos.compare_cont Eq a b) with (Pos.compare a b) in *; destruct (Pos.compare_spec a b)
  end.

Lemma sfcmp_refl : forall x, sf_nan x = false -> SpecFloat.SFcompare x x = Some Eq.
Proof.
  destruct x as [s|s| |s m e]; simpl; intros; try discriminate; try reflexivity.
  - destruct s; reflexivity.
  - rewrite Z.compare_refl. change (Pos.compare_cont Eq m m) with (Pos.compare m m).
    rewrite Pos.compare_refl. destruct s; reflexivity.
Qed.

Lemma sfcmp_total : forall x y, sf_nan x = false -> sf_nan y = false -> exists c, SpecFloat.SFcompare x y = Some c.
Proof.
  destruct x, y; simpl; intros; try discriminate; eexists; reflexivity.
Qed.

Definition comp2 (x y : comparison) : comparison := match x, y with Eq, Eq => Eq | _, _ => Lt end.

Lemma sfcmp_trans : forall x y z c1 c2,
    SpecFloat.SFcompare x y = Some c1 -> SpecFloat.SFcompare y z = Some c2 ->
    c1 <> Gt -> c2 <> Gt -> SpecFloat.SFcompare x z = Some (comp2 c1 c2).
Proof.
  intros x y z c1 c2 H1 H2 N1 N2.
  destruct x as [s1|s1| |s1 m1 e1], y as [s2|s2| |s2 m2 e2], z as [s3|s3| |s3 m3 e3];
    simpl in *; try discriminate;
    try (destruct s1); try (destruct s2); try (destruct s3); simpl in *;
    try (inversion H1; inversion H2; subst; simpl; first [reflexivity | congruence]);
    cmp_cases; simpl in *; inversion H1; inversion H2; subst; simpl in *;
    try reflexivity; try congruence; try lia.
Qed.

Lemma fcmp_refl : forall a, f_is_nan a = false -> fcmp a a = Some Eq.
Proof. intros. rewrite fcmp_sf. apply sfcmp_refl. now rewrite sf_nan_is_nan. Qed.

Lemma fcmp_swap : forall a b, fcmp b a = match fcmp a b with Some c => Some (CompOpp c) | None => None end.
Proof. intros. unfold fcmp, b64_compare. apply Binary.Bcompare_swap. Qed.

Lemma fcmp_total : forall a b, f_is_nan a = false -> f_is_nan b = false -> exists c, fcmp a b = Some c.
Proof. intros. rewrite fcmp_sf. apply sfcmp_total; now rewrite sf_nan_is_nan. Qed.

Lemma fcmp_none : forall a b, fcmp a b = None -> f_is_nan a = true \/ f_is_nan b = true.
Proof.
  intros a b H. destruct (f_is_nan a) eqn:A; [now left|]. destruct (f_is_nan b) eqn:B; [now right|].
  destruct (fcmp_total a b A B) as [c Hc]. congruence.
Qed.

Lemma fcmp_trans : forall a b c x y,
    fcmp a b = Some x -> fcmp b c = Some y -> x <> Gt -> y <> Gt -> fcmp a c = Some (comp2 x y).
Proof. intros. rewrite fcmp_sf in *. eapply sfcmp_trans; eauto. Qed.

Lemma fcmp_trans_le : forall a b c x y, f_is_nan a = false -> f_is_nan b = false -> f_is_nan c = false ->
    fcmp a b = Some x -> x <> Gt -> fcmp b c = Some y -> y <> Gt -> exists z, fcmp a c = Some z /\ z <> Gt.
Proof.
  intros. exists (comp2 x y). split. eapply fcmp_trans; eauto. destruct x, y; simpl; congruence.
Qed.

Lemma fbits_inj : forall a b, fbits a = fbits b -> a = b.
Proof.
  intros a b H. unfold fbits, bits_of_b64 in H.
  rewrite <- (binary_float_of_bits_of_binary_float 52 11 (eq_refl) (eq_refl) (eq_refl) a).
  rewrite <- (binary_float_of_bits_of_binary_float 52 11 (eq_refl) (eq_refl) (eq_refl) b).
  now rewrite H.
Qed.

(* ------------------------------------------------------------------ i64 as f64 *)

Lemma in_i64_bounds : forall z, in_i64 z = true -> -9223372036854775808 <= z <= 9223372036854775807.
Proof. unfold in_i64, i64_min, i64_max. intros z H. apply andb_prop in H. destruct H as [A B]. lia. Qed.

Local Notation fexp64 := (SpecFloat.fexp 53 1024).
Local Notation rnd64 := (Generic_fmt.round radix2 fexp64 (round_mode mode_NE)).

Lemma i2f_spec : forall z, in_i64 z = true ->
    Binary.B2R 53 1024 (i2f z) = rnd64 (IZR z) /\ Binary.is_finite 53 1024 (i2f z) = true.
Proof.
  intros z Hz. apply in_i64_bounds in Hz.
  pose proof (Binary.binary_normalize_correct 53 1024 (eq_refl) (eq_refl) mode_NE z 0 false) as H.
  assert (E : F2R (Float radix2 z 0) = IZR z) by (unfold F2R; simpl; ring).
  rewrite E in H.
  assert (B : (Rabs (rnd64 (IZR z)) < bpow radix2 1024)%R).
  { apply Rle_lt_trans with (bpow radix2 63).
    - apply Generic_fmt.abs_round_le_generic.
      + apply FLT.FLT_exp_valid. reflexivity.
      + apply Generic_fmt.valid_rnd_N.
      + apply Generic_fmt.generic_format_bpow. unfold SpecFloat.fexp, SpecFloat.emin. simpl. lia.
      + rewrite <- abs_IZR. change (bpow radix2 63) with (IZR (2 ^ 63)). apply IZR_le. lia.
    - apply bpow_lt. lia. }
  apply Rlt_bool_true in B. unfold i2f. rewrite B in H. destruct H as (H1 & H2 & _). split; assumption.
Qed.

Lemma i2f_not_nan : forall z, in_i64 z = true -> f_is_nan (i2f z) = false.
Proof.
  intros z Hz. destruct (i2f_spec z Hz) as [_ Hf]. unfold f_is_nan.
  destruct (i2f z); simpl in *; congruence.
Qed.

(* rounding is monotone *)
Lemma i2f_mono : forall z1 z2, in_i64 z1 = true -> in_i64 z2 = true -> z1 <= z2 ->
    exists c, fcmp (i2f z1) (i2f z2) = Some c /\ c <> Gt.
Proof.
  intros z1 z2 H1 H2 L.
  destruct (i2f_spec z1 H1) as [R1 F1]. destruct (i2f_spec z2 H2) as [R2 F2].
  unfold fcmp, b64_compare. rewrite (Binary.Bcompare_correct 53 1024 _ _ F1 F2).
  eexists. split. reflexivity.
  rewrite R1, R2.
  assert (LE : (rnd64 (IZR z1) <= rnd64 (IZR z2))%R).
  { apply Generic_fmt.round_le.
    - apply FLT.FLT_exp_valid. reflexivity.
    - apply Generic_fmt.valid_rnd_N.
    - apply IZR_le. exact L. }
  intro G. apply Rcompare_Gt_inv in G. lra.
Qed.

(* ------------------------------------------------------------------ KNumber: == *)

Lemma feq_sym : forall a b, feq a b = feq b a.
Proof. intros. unfold feq. rewrite (fcmp_swap a b). destruct (fcmp a b) as [[]|]; reflexivity. Qed.

Lemma num_eq_refl : forall n, num_ok n = true -> num_eq n n = true.
Proof.
  destruct n; simpl; intros H.
  - apply Z.eqb_refl.
  - unfold feq. rewrite fcmp_refl. reflexivity. now apply negb_true_iff in H.
Qed.

Lemma num_eq_sym : forall a b, num_eq a b = num_eq b a.
Proof. destruct a, b; simpl; try apply feq_sym. apply Z.eqb_sym. Qed.

(* ------------------------------------------------------------------ KNumber: ordering *)

(* the float every comparison with a float goes through *)
Definition emb (n : num) : f64 := match n with I z => i2f z | F x => x end.

Lemma emb_not_nan : forall n, num_ok n = true -> f_is_nan (emb n) = false.
Proof. destruct n; simpl; intros. now apply i2f_not_nan. now apply negb_true_iff in H. Qed.

Lemma num_partial_some : forall a b, num_ok a = true -> num_ok b = true -> exists c, num_partial a b = Some c.
Proof.
  intros a b A B. destruct a, b; simpl; try (eexists; reflexivity);
    apply fcmp_total; try (apply i2f_not_nan; assumption); simpl in *; now apply negb_true_iff.
Qed.

Lemma num_cmp_ok : forall a b, num_ok a = true -> num_ok b = true -> num_partial a b = Some (num_cmp a b).
Proof. intros a b A B. destruct (num_partial_some a b A B) as [c H]. unfold num_cmp. now rewrite H. Qed.

Lemma num_partial_swap : forall a b, num_partial b a = match num_partial a b with Some c => Some (CompOpp c) | None => None end.
Proof.
  destruct a, b; simpl; try apply fcmp_swap. now rewrite (Z.compare_antisym z z0).
Qed.

Lemma num_cmp_swap : forall a b, num_ok a = true -> num_ok b = true -> num_cmp b a = CompOpp (num_cmp a b).
Proof.
  intros a b A B. pose proof (num_cmp_ok a b A B) as H1. pose proof (num_cmp_ok b a B A) as H2.
  rewrite num_partial_swap, H1 in H2. congruence.
Qed.

(* mixed comparisons go through emb; integer pairs are related to it by monotonicity *)
Lemma num_partial_emb : forall a b, (exists x, a = F x) \/ (exists y, b = F y) -> num_partial a b = fcmp (emb a) (emb b).
Proof. intros a b [[x ->]|[y ->]]. destruct b; reflexivity. destruct a; reflexivity. Qed.

Lemma num_le_emb : forall a b c, num_ok a = true -> num_ok b = true -> num_partial a b = Some c -> c <> Gt ->
    exists d, fcmp (emb a) (emb b) = Some d /\ d <> Gt.
Proof.
  intros a b c A B H N. destruct a as [z1|x], b as [z2|y];
    try (exists c; split; [exact H | exact N]).
  simpl in *. apply i2f_mono; try assumption.
  inversion H; subst. destruct (Z.compare_spec z1 z2); try lia. congruence.
Qed.

Lemma num_lt_irrefl : forall a, num_lt a a = false.
Proof.
  intros a. unfold num_lt, num_cmp. destruct (num_partial a a) as [c|] eqn:H.
  - destruct a; simpl in H.
    + rewrite Z.compare_refl in H. now inversion H.
    + pose proof (fcmp_swap x x) as S. rewrite H in S. destruct c; simpl in S; try congruence; reflexivity.
  - destruct (num_is_nan a); reflexivity.
Qed.

Lemma cmp_lt_emb : forall a b, num_ok a = true -> num_ok b = true -> num_cmp a b = Lt ->
    (exists z1 z2, a = I z1 /\ b = I z2 /\ z1 < z2) \/ fcmp (emb a) (emb b) = Some Lt.
Proof.
  intros a b A B H. pose proof (num_cmp_ok a b A B) as P. rewrite H in P.
  destruct a as [z1|x], b as [z2|y]; simpl in *; try (right; exact P).
  left. exists z1, z2. repeat split; auto; try (inversion P; now apply Z.compare_lt_iff).
Qed.

Lemma emb_lt_cmp : forall a b, num_ok a = true -> num_ok b = true -> fcmp (emb a) (emb b) = Some Lt -> num_cmp a b = Lt.
Proof.
  intros a b A B H. pose proof (num_cmp_ok a b A B) as P.
  destruct a as [z1|x], b as [z2|y]; simpl in *; try congruence.
  (* both integers: z1 < z2, otherwise monotonicity contradicts H *)
  destruct (Z.compare_spec z1 z2) as [E|L|G].
  - subst. rewrite fcmp_refl in H. discriminate. now apply i2f_not_nan.
  - inversion P. reflexivity.
  - destruct (i2f_mono z2 z1 B A ltac:(lia)) as (c & Hc & Nc).
    rewrite fcmp_swap, H in Hc. inversion Hc. subst. simpl in Nc. congruence.
Qed.

Lemma num_lt_emb_le : forall a b, num_ok a = true -> num_ok b = true -> num_cmp a b = Lt ->
    exists d, fcmp (emb a) (emb b) = Some d /\ d <> Gt.
Proof.
  intros a b A B H. eapply num_le_emb; eauto. rewrite (num_cmp_ok a b A B), H. reflexivity. congruence.
Qed.

Theorem num_lt_trans : forall a b c, num_ok a = true -> num_ok b = true -> num_ok c = true ->
    num_lt a b = true -> num_lt b c = true -> num_lt a c = true.
Proof.
  intros a b c A B C H1 H2. unfold num_lt in *.
  destruct (num_cmp a b) eqn:E1; try discriminate. destruct (num_cmp b c) eqn:E2; try discriminate.
  clear H1 H2.
  destruct (cmp_lt_emb a b A B E1) as [(z1 & z2 & Ea & Eb & L1)|F1];
    destruct (cmp_lt_emb b c B C E2) as [(z2' & z3 & Eb' & Ec & L2)|F2].
  - subst a c. rewrite Eb in Eb'. inversion Eb'; subst z2'.
    unfold num_cmp. simpl. assert (z1 < z3) by lia. rewrite (proj2 (Z.compare_lt_iff z1 z3)); auto.
  - (* int < int, then emb b < emb c *)
    destruct (num_lt_emb_le a b A B E1) as (d & Hd & Nd).
    rewrite (emb_lt_cmp a c A C). reflexivity.
    rewrite (fcmp_trans _ _ _ _ _ Hd F2 Nd ltac:(congruence)). destruct d; simpl; congruence.
  - destruct (num_lt_emb_le b c B C E2) as (d & Hd & Nd).
    rewrite (emb_lt_cmp a c A C). reflexivity.
    rewrite (fcmp_trans _ _ _ _ _ F1 Hd ltac:(congruence) Nd). reflexivity.
  - rewrite (emb_lt_cmp a c A C). reflexivity.
    rewrite (fcmp_trans _ _ _ _ _ F1 F2 ltac:(congruence) ltac:(congruence)). reflexivity.
Qed.

(* exactly one of a < b, a == b, b < a *)
Theorem num_trichotomy : forall a b, num_ok a = true -> num_ok b = true ->
    (num_lt a b = true /\ num_eq a b = false /\ num_lt b a = false) \/
    (num_lt a b = false /\ num_eq a b = true /\ num_lt b a = false) \/
    (num_lt a b = false /\ num_eq a b = false /\ num_lt b a = true).
Proof.
  intros a b A B. unfold num_lt. rewrite (num_cmp_swap a b A B).
  pose proof (num_cmp_ok a b A B) as P.
  assert (E : num_eq a b = match num_cmp a b with Eq => true | _ => false end).
  { destruct a as [z1|x], b as [z2|y]; simpl in *; unfold feq; try (rewrite P; reflexivity).
    unfold num_cmp; simpl. destruct (Z.compare_spec z1 z2); subst; try (rewrite Z.eqb_refl; reflexivity);
      apply Z.eqb_neq; lia. }
  rewrite E. destruct (num_cmp a b); simpl; auto.
Qed.

Theorem num_eq_trans_refuted : exists a b c, num_ok a = true /\ num_ok b = true /\ num_ok c = true /\
    num_eq a b = true /\ num_eq b c = true /\ num_eq a c = false /\ num_lt a c = true.
Proof.
  exists (I 9007199254740992), (F (b64_of_bits 4845873199050653696)), (I 9007199254740993).
  vm_compute. repeat split; reflexivity.
Qed.

(* ------------------------------------------------------------------ strings: byte-wise order *)

Lemma bytes_cmp_refl : forall a, bytes_cmp a a = Eq.
Proof. induction a; simpl; auto. rewrite Z.compare_refl. assumption. Qed.

Lemma bytes_cmp_swap : forall a b, bytes_cmp b a = CompOpp (bytes_cmp a b).
Proof.
  induction a; destruct b; simpl; auto.
  rewrite (Z.compare_antisym a z). destruct (a ?= z); simpl; auto.
Qed.

Lemma bytes_cmp_eq : forall a b, bytes_cmp a b = Eq <-> a = b.
Proof.
  induction a; destruct b; simpl; split; intros H; try discriminate; auto.
  - destruct (Z.compare_spec a z); try discriminate. subst. f_equal. now apply IHa.
  - inversion H; subst. rewrite Z.compare_refl. now apply IHa.
Qed.

Lemma bytes_eqb_cmp : forall a b, bytes_eqb a b = match bytes_cmp a b with Eq => true | _ => false end.
Proof.
  induction a; destruct b; simpl; auto.
  destruct (Z.compare_spec a z); subst.
  - rewrite Z.eqb_refl. simpl. apply IHa.
  - replace (a =? z) with false by (symmetry; apply Z.eqb_neq; lia). reflexivity.
  - replace (a =? z) with false by (symmetry; apply Z.eqb_neq; lia). reflexivity.
Qed.

Lemma bytes_cmp_trans_lt : forall a b c, bytes_cmp a b = Lt -> bytes_cmp b c = Lt -> bytes_cmp a c = Lt.
Proof.
  induction a; destruct b, c; simpl; intros; try discriminate; auto.
  destruct (Z.compare_spec a z), (Z.compare_spec z z0), (Z.compare_spec a z0); subst; try discriminate; try lia; eauto.
Qed.

Definition str_lt (a b : bytes) : bool := cmp_lt (bytes_cmp a b).

Theorem str_lt_strict_total :
  (forall a, str_lt a a = false) /\
  (forall a b c, str_lt a b = true -> str_lt b c = true -> str_lt a c = true) /\
  (forall a b, (str_lt a b = true /\ bytes_eqb a b = false /\ str_lt b a = false) \/
               (str_lt a b = false /\ bytes_eqb a b = true /\ str_lt b a = false) \/
               (str_lt a b = false /\ bytes_eqb a b = false /\ str_lt b a = true)).
Proof.
  unfold str_lt. repeat split.
  - intros. now rewrite bytes_cmp_refl.
  - intros a b c H1 H2. destruct (bytes_cmp a b) eqn:E1; try discriminate.
    destruct (bytes_cmp b c) eqn:E2; try discriminate. now rewrite (bytes_cmp_trans_lt a b c E1 E2).
  - intros a b. rewrite bytes_eqb_cmp, (bytes_cmp_swap a b). destruct (bytes_cmp a b); simpl; auto.
Qed.

(* ------------------------------------------------------------------ the hash of numbers respects == *)

Lemma fcmp_eq_norm : forall x y, fcmp x y = Some Eq -> fnorm x = fnorm y.
Proof.
  intros x y H. unfold fcmp, b64_compare, Binary.Bcompare in H.
  destruct x as [s1|s1|s1 p1 h1|s1 m1 e1 h1], y as [s2|s2|s2 p2 h2|s2 m2 e2 h2]; simpl in H; try discriminate;
    try (destruct s1; discriminate); try (destruct s2; discriminate).
  - destruct s1, s2; reflexivity.
  - destruct s1, s2; try discriminate; reflexivity.
  - assert (E : s1 = s2 /\ e1 = e2 /\ m1 = m2).
    { destruct s1, s2; try discriminate; inversion H as [H0]; clear H;
        destruct (Z.compare_spec e1 e2); try discriminate; subst;
        change (Pos.compare_cont Eq m1 m2) with (Pos.compare m1 m2) in H0;
        destruct (Pos.compare_spec m1 m2); try discriminate; subst; auto. }
    destruct E as (-> & -> & ->).
    assert (X : Binary.B754_finite 53 1024 s2 m2 e2 h1 = Binary.B754_finite 53 1024 s2 m2 e2 h2)
      by (apply Binary.B2FF_inj; reflexivity).
    rewrite X. reflexivity.
Qed.

Lemma num_eq_emb : forall a b, num_eq a b = true -> fcmp (emb a) (emb b) = Some Eq \/ (exists z, a = I z /\ b = I z).
Proof.
  intros a b H. destruct a as [x|x], b as [y|y]; simpl in *.
  - right. apply Z.eqb_eq in H. subst. eauto.
  - left. unfold feq in H. destruct (fcmp (i2f x) y) as [[]|]; try discriminate; reflexivity.
  - left. unfold feq in H. destruct (fcmp x (i2f y)) as [[]|]; try discriminate; reflexivity.
  - left. unfold feq in H. destruct (fcmp x y) as [[]|]; try discriminate; reflexivity.
Qed.

(* equal numbers feed the hasher the same word — for ALL numbers *)
Theorem num_hash_respects_eq : forall a b, num_eq a b = true -> num_hash_bits a = num_hash_bits b.
Proof.
  intros a b H. destruct (num_eq_emb a b H) as [E|(z & -> & ->)]; [|reflexivity].
  unfold num_hash_bits. change (match a with I z => i2f z | F x => x end) with (emb a).
  change (match b with I z => i2f z | F x => x end) with (emb b). now rewrite (fcmp_eq_norm _ _ E).
Qed.

(* ------------------------------------------------------------------ exactly convertible integers *)

Lemma num_exact_bounds : forall z, num_exact (I z) = true -> -9007199254740992 <= z <= 9007199254740992.
Proof. simpl. intros z H. apply andb_prop in H. destruct H. lia. Qed.

Lemma exact_in_i64 : forall z, -9007199254740992 <= z <= 9007199254740992 -> in_i64 z = true.
Proof. intros. unfold in_i64, i64_min, i64_max. apply andb_true_intro. split; apply Z.leb_le; lia. Qed.

Lemma i2f_exact : forall z, -9007199254740992 <= z <= 9007199254740992 -> Binary.B2R 53 1024 (i2f z) = IZR z.
Proof.
  intros z Hz. destruct (i2f_spec z (exact_in_i64 z Hz)) as [R _]. rewrite R.
  apply Generic_fmt.round_generic. apply Generic_fmt.valid_rnd_N.
  apply (FLT.generic_format_FLT radix2 (3 - 1024 - 53) 53).
  destruct (Z.eq_dec (Z.abs z) 9007199254740992) as [E|N].
  - assert (C : z = 9007199254740992 \/ z = -9007199254740992) by lia.
    destruct C; subst.
    + apply (FLT.FLT_spec radix2 (3 - 1024 - 53) 53 _ (Float radix2 1 53)); simpl; try lia.
      unfold F2R. simpl. lra.
    + apply (FLT.FLT_spec radix2 (3 - 1024 - 53) 53 _ (Float radix2 (-1) 53)); simpl; try lia.
      unfold F2R. simpl. lra.
  - apply (FLT.FLT_spec radix2 (3 - 1024 - 53) 53 _ (Float radix2 z 0)); simpl; try lia.
    unfold F2R. simpl. ring.
Qed.

Lemma i2f_exact_inj : forall a c, -9007199254740992 <= a <= 9007199254740992 -> -9007199254740992 <= c <= 9007199254740992 ->
    fcmp (i2f a) (i2f c) = Some Eq -> a = c.
Proof.
  intros a c Ha Hc H.
  destruct (i2f_spec a (exact_in_i64 a Ha)) as [_ Fa]. destruct (i2f_spec c (exact_in_i64 c Hc)) as [_ Fc].
  unfold fcmp, b64_compare in H. rewrite (Binary.Bcompare_correct 53 1024 _ _ Fa Fc) in H.
  inversion H as [H0]. apply Rcompare_Eq_inv in H0. rewrite (i2f_exact a Ha), (i2f_exact c Hc) in H0.
  now apply eq_IZR.
Qed.

(* on NaN-free numbers with exactly convertible integers `==` is transitive *)
Theorem num_eq_trans_exact : forall x y z,
    num_ok x = true -> num_ok y = true -> num_ok z = true ->
    num_exact x = true -> num_exact y = true -> num_exact z = true ->
    num_eq x y = true -> num_eq y z = true -> num_eq x z = true.
Proof.
  intros x y z X Y Z EX EY EZ H1 H2.
  assert (A : fcmp (emb x) (emb y) = Some Eq).
  { destruct (num_eq_emb x y H1) as [E|(a & -> & ->)]; auto. apply fcmp_refl. now apply emb_not_nan. }
  assert (B : fcmp (emb y) (emb z) = Some Eq).
  { destruct (num_eq_emb y z H2) as [E|(a & -> & ->)]; auto. apply fcmp_refl. now apply emb_not_nan. }
  pose proof (fcmp_trans _ _ _ _ _ A B ltac:(congruence) ltac:(congruence)) as C. simpl in C.
  destruct x as [a|a], z as [c|c]; simpl in *; unfold feq; try (rewrite C; reflexivity).
  apply Z.eqb_eq. apply i2f_exact_inj; auto; now apply num_exact_bounds.
Qed.
