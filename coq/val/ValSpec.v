(* C14 — what the property says, independently of how the code works.
   (1) map order: the key sequence after a history of map operations, as a function of the history;
   (2) heap regions: which locations an operation may change, what a value can reach;
   (3) sorting: sorted permutation. *)
From Coq Require Import ZArith List Bool Lia Sorting.Permutation Sorting.Sorted.
From KV.val Require Import ValModel HeapModel.
Import ListNotations.
Open Scope Z_scope.

(* ------------------------------------------------------------------ values without NaN *)

Definition num_ok (n : num) : bool :=
  match n with I z => in_i64 z | F x => negb (f_is_nan x) end.

(* NaN-free, integers in i64 range *)
Fixpoint nan_free (v : val) : bool :=
  match v with
  | VNum n => num_ok n
  | VList l | VTuple l => (fix all (l : list val) := match l with [] => true | x :: r => nan_free x && all r end) l
  | VMap m => (fix all (m : list (val * val)) := match m with [] => true | (k, x) :: r => nan_free k && nan_free x && all r end) m
  | _ => true
  end.

(* integers that `as f64` converts exactly: beyond 2^53 `==` between integers and floats is not transitive
   (finding C14e), so such integers are excluded where keys must form an equivalence *)
Definition num_exact (n : num) : bool :=
  match n with I z => (-9007199254740992 <=? z) && (z <=? 9007199254740992) | F _ => true end.

(* a key (or part of one) without NaN and with exactly convertible integers *)
Fixpoint kfine (v : val) : bool :=
  match v with
  | VNum n => num_ok n && num_exact n
  | VList l | VTuple l => (fix all (l : list val) := match l with [] => true | x :: r => kfine x && all r end) l
  | _ => true
  end.

(* ------------------------------------------------------------------ (1) map order *)

Inductive mop :=
| MInsert (k : val)                 (* m.insert k, _   /  m.k = _ *)
| MRemove (k : val)                 (* m.remove k *)
| MExtend (ks : list val)           (* m.extend other  (other's keys in order) *)
| MSort                             (* m.sort() *)
| MIdxAssign (i : nat) (k : val)    (* m[i] = (k, _) *).

(* the keys mentioned by a history *)
Definition mop_keys (o : mop) : list val :=
  match o with
  | MInsert k | MRemove k | MIdxAssign _ k => [k]
  | MExtend ks => ks
  | MSort => []
  end.

Section MapOrderSpec.
  (* "the same key": equality as values *)
  Definition same (a b : val) : bool := key_eq a b.

  Definition spec_insert (ks : list val) (k : val) : list val :=
    if existsb (same k) ks then ks else ks ++ [k].

  Fixpoint spec_remove (ks : list val) (k : val) : list val :=
    match ks with
    | [] => []
    | x :: r => if same k x then r else x :: spec_remove r k
    end.

  Fixpoint replace_nth (ks : list val) (i : nat) (k : val) : list val :=
    match ks, i with
    | [], _ => []
    | _ :: r, O => k :: r
    | x :: r, S j => x :: replace_nth r j k
    end.

  (* does k equal a key at a position other than i? *)
  Fixpoint clashes (ks : list val) (i : nat) (k : val) : bool :=
    match ks, i with
    | [], _ => false
    | _ :: r, O => existsb (same k) r
    | x :: r, S j => same k x || clashes r j k
    end.

  Variable sort_keys : (val -> val -> comparison) -> list val -> list val.

  (* None: the interpreter panics (known finding C14b) *)
  Definition spec_step (ks : list val) (o : mop) : option (list val) :=
    match o with
    | MInsert k => Some (spec_insert ks k)
    | MRemove k => Some (spec_remove ks k)
    | MExtend l => Some (fold_left spec_insert l ks)
    | MSort => Some (sort_keys key_cmp ks)
    | MIdxAssign i k =>
        if Nat.ltb i (length ks) then (if clashes ks i k then None else Some (replace_nth ks i k))
        else Some ks     (* index error: nothing changes *)
    end.

  Fixpoint spec_run (ks : list val) (ops : list mop) : option (list val) :=
    match ops with
    | [] => Some ks
    | o :: r => match spec_step ks o with Some ks' => spec_run ks' r | None => None end
    end.
End MapOrderSpec.

(* the model side: the same history on entries (values are irrelevant for the order; each operation
   carries the value it stores) *)
Section MapOrderModel.
  Context {V : Type}.
  Variable sort_entries : (val * V -> val * V -> comparison) -> list (val * V) -> list (val * V).
  Variable dflt : V.

  Definition model_step (m : list (val * V)) (o : mop) : option (list (val * V)) :=
    match o with
    | MInsert k => Some (map_insert m k dflt)
    | MRemove k => Some (snd (shift_remove m k))
    | MExtend l => Some (map_extend m (map (fun k => (k, dflt)) l))
    | MSort => Some (map_sort sort_entries m)
    | MIdxAssign i k =>
        match index_assign m i k dflt with
        | Done m' => Some m'
        | Fail => Some m
        | Panic => None
        end
    end.

  Fixpoint model_run (m : list (val * V)) (ops : list mop) : option (list (val * V)) :=
    match ops with
    | [] => Some m
    | o :: r => match model_step m o with Some m' => model_run m' r | None => None end
    end.
End MapOrderModel.

(* the hash respects equality on a universe of keys (true of every universe since the fix of C14a:
   EqProofs.hash_ok_all) *)
Definition hash_ok_on (U : val -> Prop) : Prop :=
  forall a b, U a -> U b -> key_eq a b = true -> hstream_eqb (hstream a) (hstream b) = true.

(* ------------------------------------------------------------------ (2) heap regions *)

Fixpoint locs_of (v : hval) : list loc :=
  match v with
  | HList l | HMap l => [l]
  | HTuple xs => (fix cat (xs : list hval) := match xs with [] => [] | x :: r => locs_of x ++ cat r end) xs
  | _ => []
  end.

Definition obj_locs (o : obj) : list loc :=
  match o with
  | OList xs => flat_map locs_of xs
  | OMap m => flat_map (fun e => locs_of (snd e)) m
  end.

Definition region := loc -> bool.

(* objects inside the region only mention locations inside the region *)
Definition closed (R : region) (h : heap) : Prop :=
  forall l o, R l = true -> nth_error h l = Some o -> forall l', In l' (obj_locs o) -> R l' = true.

Definition agree (R : region) (h1 h2 : heap) : Prop :=
  forall l, R l = true -> nth_error h1 l = nth_error h2 l.

Definition within (R : region) (v : hval) : Prop :=
  forall l, In l (locs_of v) -> R l = true.

(* every handle in the state points into the heap *)
Definition wf_state (s : state) : Prop :=
  (forall v, In v (st_env s) -> forall l, In l (locs_of v) -> (l < length (st_heap s))%nat) /\
  (forall l o, nth_error (st_heap s) l = Some o -> forall l', In l' (obj_locs o) -> (l' < length (st_heap s))%nat).

(* the one location whose object an operation may overwrite: the receiver's *)
Definition target (env : list hval) (o : op) : option loc :=
  let recv x := match nth_error env x with Some (HList l) | Some (HMap l) => Some l | _ => None end in
  match o with
  | OPop x | ORemoveAt x _ | OMapInsert x _ _ | OMapRemove x _ | OPush x _ | OInsertAt x _ _ | OSetIdx x _ _
  | OListExtend x _ | OSort x | OMapExtend x _ | OMapIdxAssign x _ _ _ => recv x
  | _ => None
  end.

Section Exec.
  Variable sort_vals : (val -> val -> comparison) -> list val -> list val.
  Variable sort_entries : (val * hval -> val * hval -> comparison) -> list (val * hval) -> list (val * hval).

  (* the state after a history (statuses ignored: a failed step changes nothing but may bind null) *)
  Fixpoint exec (s : state) (ops : list op) : state :=
    match ops with
    | [] => s
    | o :: r => exec (fst (step sort_vals sort_entries s o)) r
    end.

  (* no step of the history has location l as its target *)
  Fixpoint avoids (l : loc) (s : state) (ops : list op) : Prop :=
    match ops with
    | [] => True
    | o :: r => target (st_env s) o <> Some l /\ avoids l (fst (step sort_vals sort_entries s o)) r
    end.
End Exec.

(* ------------------------------------------------------------------ (3) sorting *)

Definition total_preorder_on {A} (cmp : A -> A -> comparison) (l : list A) : Prop :=
  (forall a, In a l -> cmp a a = Eq) /\
  (forall a b, In a l -> In b l -> cmp b a = CompOpp (cmp a b)) /\
  (forall a b c, In a l -> In b l -> In c l -> cmp a b <> Gt -> cmp b c <> Gt -> cmp a c <> Gt).

(* the contract of slice::sort_by / IndexMap::sort_by *)
Definition sort_contract {A} (sorter : (A -> A -> comparison) -> list A -> list A) : Prop :=
  forall cmp l, total_preorder_on cmp l ->
    Permutation l (sorter cmp l) /\ StronglySorted (fun a b => cmp a b <> Gt) (sorter cmp l).

(* homogeneous, comparable data: all integers, or all non-NaN floats, or all strings *)
Definition all_ints (l : list val) : bool := forallb (fun v => match v with VNum (I _) => true | _ => false end) l.
Definition all_floats (l : list val) : bool := forallb (fun v => match v with VNum (F x) => negb (f_is_nan x) | _ => false end) l.
Definition all_strs (l : list val) : bool := forallb (fun v => match v with VStr _ => true | _ => false end) l.
Definition sortable (l : list val) : bool := all_ints l || all_floats l || all_strs l.

Definition vle_true (a b : val) : Prop := vle a b = Some true.
