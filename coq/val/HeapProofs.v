(* C14 — heap theorems: framing, aliasing, copy / deep_copy independence, immutables.
   All statements are about ALL states and ALL histories; the sorting routines are Section variables. *)
From Coq Require Import ZArith List Bool Lia.
From KV.val Require Import ValModel HeapModel ValSpec.
Import ListNotations.
Local Open Scope nat_scope.

(* ------------------------------------------------------------------ list facts *)

Lemma nth_error_set_nth_other {A} : forall (h : list A) l l' o,
  l <> l' -> nth_error (set_nth h l o) l' = nth_error h l'.
Proof.
  induction h as [|a h IH]; intros l l' o H; destruct l, l'; simpl; try reflexivity; try congruence.
  apply IH; congruence.
Qed.

Lemma length_set_nth {A} : forall (h : list A) l o, length (set_nth h l o) = length h.
Proof. induction h as [|a h IH]; intros [|l] o; simpl; auto. Qed.

Lemma nth_error_snoc {A} : forall (l : list A) a, nth_error (l ++ [a]) (length l) = Some a.
Proof. intros. rewrite nth_error_app2 by lia. rewrite Nat.sub_diag. reflexivity. Qed.

Lemma nth_error_lt {A} : forall (l : list A) n a, nth_error l n = Some a -> n < length l.
Proof. intros. apply nth_error_Some. congruence. Qed.

(* ------------------------------------------------------------------ resolve, one level unfolded *)

Section AllWith.
  Variable r : hval -> option val.
  Fixpoint all_with (l : list hval) : option (list val) :=
    match l with
    | [] => Some []
    | x :: rest => match r x, all_with rest with Some a, Some b => Some (a :: b) | _, _ => None end
    end.
  Fixpoint allm_with (m : list (val * hval)) : option (list (val * val)) :=
    match m with
    | [] => Some []
    | (k, x) :: rest => match r x, allm_with rest with Some a, Some b => Some ((k, a) :: b) | _, _ => None end
    end.
End AllWith.

Lemma resolve_S : forall f h v, resolve (S f) h v =
  match v with
  | HNull => Some VNull
  | HBool b => Some (VBool b)
  | HNum n => Some (VNum n)
  | HStr s => Some (VStr s)
  | HRange lo hi => Some (VRange lo hi)
  | HTuple l => option_map VTuple (all_with (resolve f h) l)
  | HList l => match nth_error h l with
               | Some (OList xs) => option_map VList (all_with (resolve f h) xs)
               | _ => None
               end
  | HMap l => match nth_error h l with
              | Some (OMap m) => option_map VMap (allm_with (resolve f h) m)
              | _ => None
              end
  end.
Proof. intros f h v. destruct v; reflexivity. Qed.

Lemma all_with_ext : forall r1 r2 l, (forall x, In x l -> r1 x = r2 x) -> all_with r1 l = all_with r2 l.
Proof.
  induction l as [|a l IH]; simpl; intros H; auto.
  rewrite (H a) by auto. rewrite IH by auto. reflexivity.
Qed.

Lemma allm_with_ext : forall r1 r2 m, (forall k x, In (k, x) m -> r1 x = r2 x) -> allm_with r1 m = allm_with r2 m.
Proof.
  induction m as [|[k x] m IH]; simpl; intros H; auto.
  rewrite (H k x) by auto. rewrite IH; [reflexivity|]. intros k' x' Hin. eapply H. right. exact Hin.
Qed.

Lemma locs_tuple : forall xs, locs_of (HTuple xs) = flat_map locs_of xs.
Proof.
  induction xs as [|a xs IH]; [reflexivity|].
  change (locs_of (HTuple (a :: xs))) with (locs_of a ++ locs_of (HTuple xs)).
  rewrite IH. reflexivity.
Qed.

Lemma within_tuple_elem : forall R xs x, within R (HTuple xs) -> In x xs -> within R x.
Proof.
  unfold within; intros R xs x H Hin l Hl. apply H. rewrite locs_tuple. apply in_flat_map. eauto.
Qed.

(* ------------------------------------------------------------------ deep_copy invariant *)

(* h' extends h, and every object at a new location mentions new locations only *)
Definition fresh_ext (h h' : heap) : Prop :=
  (exists ext, h' = h ++ ext) /\
  (forall l o, length h <= l -> nth_error h' l = Some o ->
     forall l', In l' (obj_locs o) -> length h <= l' < length h').

Definition fresh_val (h h' : heap) (v : hval) : Prop :=
  forall l, In l (locs_of v) -> length h <= l < length h'.

Lemma fresh_ext_len : forall h h', fresh_ext h h' -> length h <= length h'.
Proof. intros h h' [[ext ->] _]. rewrite app_length. lia. Qed.

Lemma fresh_ext_refl : forall h, fresh_ext h h.
Proof.
  intros h. split. { exists []. now rewrite app_nil_r. }
  intros l o Hl Hn. assert (nth_error h l = None) by (apply nth_error_None; lia). congruence.
Qed.

Lemma fresh_ext_trans : forall h h1 h2, fresh_ext h h1 -> fresh_ext h1 h2 -> fresh_ext h h2.
Proof.
  intros h h1 h2 [[e1 E1] C1] [[e2 E2] C2].
  assert (L1 : length h <= length h1) by (subst h1; rewrite app_length; lia).
  assert (L2 : length h1 <= length h2) by (subst h2; rewrite app_length; lia).
  split. { exists (e1 ++ e2). subst. now rewrite app_assoc. }
  intros l o Hl Hn l' Hl'.
  destruct (Nat.lt_ge_cases l (length h1)) as [Hlt|Hge].
  - assert (Hn1 : nth_error h1 l = Some o).
    { rewrite <- Hn. rewrite E2. symmetry. apply nth_error_app1. exact Hlt. }
    specialize (C1 l o Hl Hn1 l' Hl'). lia.
  - specialize (C2 l o Hge Hn l' Hl'). lia.
Qed.

Lemma fresh_ext_alloc : forall h h1 o, fresh_ext h h1 ->
  (forall l, In l (obj_locs o) -> length h <= l < length h1) -> fresh_ext h (h1 ++ [o]).
Proof.
  intros h h1 o [[e1 E1] C1] Ho.
  assert (L1 : length h <= length h1) by (subst h1; rewrite app_length; lia).
  split. { exists (e1 ++ [o]). subst. now rewrite app_assoc. }
  intros l o0 Hl Hn l' Hl'. rewrite app_length; simpl.
  destruct (Nat.lt_ge_cases l (length h1)) as [Hlt|Hge].
  - rewrite nth_error_app1 in Hn by exact Hlt. specialize (C1 l o0 Hl Hn l' Hl'). lia.
  - rewrite nth_error_app2 in Hn by exact Hge.
    destruct (l - length h1) as [|k]; simpl in Hn.
    + inversion Hn; subst o0. specialize (Ho l' Hl'). lia.
    + destruct k; discriminate.
Qed.

Lemma fresh_val_mono : forall h0 h h' h'' v,
  length h0 <= length h -> length h' <= length h'' -> fresh_val h h' v -> fresh_val h0 h'' v.
Proof. unfold fresh_val; intros h0 h h' h'' v A B H l Hl. specialize (H l Hl). lia. Qed.

Section DCInv.
  Variable rec : heap -> hval -> option (heap * hval).
  Hypothesis rec_ok : forall h v h' v', rec h v = Some (h', v') -> fresh_ext h h' /\ fresh_val h h' v'.

  Lemma dc_list_inv : forall l h h' l', dc_list rec h l = Some (h', l') ->
    fresh_ext h h' /\ forall x, In x l' -> fresh_val h h' x.
  Proof.
    induction l as [|a l IH]; simpl; intros h h' l' H.
    - inversion H; subst. split. apply fresh_ext_refl. intros x [].
    - destruct (rec h a) as [[h1 a']|] eqn:E1; try discriminate.
      destruct (dc_list rec h1 l) as [[h2 r']|] eqn:E2; try discriminate.
      inversion H; subst. apply rec_ok in E1. destruct E1 as [F1 V1].
      apply IH in E2. destruct E2 as [F2 V2].
      pose proof (fresh_ext_len _ _ F1). pose proof (fresh_ext_len _ _ F2).
      split. { eapply fresh_ext_trans; eauto. }
      intros x [<-|Hx].
      + eapply fresh_val_mono; [ | | exact V1]; lia.
      + eapply fresh_val_mono; [ | | apply V2; exact Hx]; lia.
  Qed.

  Lemma dc_entries_inv : forall m h h' m', dc_entries rec h m = Some (h', m') ->
    fresh_ext h h' /\ forall k x, In (k, x) m' -> fresh_val h h' x.
  Proof.
    induction m as [|[k a] m IH]; simpl; intros h h' m' H.
    - inversion H; subst. split. apply fresh_ext_refl. intros k x [].
    - destruct (rec h a) as [[h1 a']|] eqn:E1; try discriminate.
      destruct (dc_entries rec h1 m) as [[h2 r']|] eqn:E2; try discriminate.
      inversion H; subst. apply rec_ok in E1. destruct E1 as [F1 V1].
      apply IH in E2. destruct E2 as [F2 V2].
      pose proof (fresh_ext_len _ _ F1). pose proof (fresh_ext_len _ _ F2).
      split. { eapply fresh_ext_trans; eauto. }
      intros k' x [Heq|Hx].
      + inversion Heq; subst. eapply fresh_val_mono; [ | | exact V1]; lia.
      + eapply fresh_val_mono; [ | | eapply V2; exact Hx]; lia.
  Qed.

  Lemma dc_body_inv : forall h v h' v', dc_body rec h v = Some (h', v') ->
    fresh_ext h h' /\ fresh_val h h' v'.
  Proof.
    intros h v h' v' H. destruct v as [| | | | |xs|l|l]; simpl in H;
      try (inversion H; subst; split; [apply fresh_ext_refl | intros l0 Hl0; simpl in Hl0; contradiction]).
    - destruct (dc_list rec h xs) as [[h1 xs']|] eqn:E; try discriminate.
      inversion H; subst. apply dc_list_inv in E. destruct E as [F V]. split; auto.
      intros loc Hloc. rewrite locs_tuple in Hloc. apply in_flat_map in Hloc.
      destruct Hloc as [x [Hx Hl]]. eapply V; eauto.
    - destruct (nth_error h l) as [[xs|m]|]; try discriminate.
      destruct (dc_list rec h xs) as [[h1 xs']|] eqn:E; try discriminate.
      unfold alloc in H. inversion H; subst. apply dc_list_inv in E. destruct E as [F V].
      pose proof (fresh_ext_len _ _ F). split.
      + apply fresh_ext_alloc; auto. intros loc Hloc. simpl in Hloc. apply in_flat_map in Hloc.
        destruct Hloc as [x [Hx Hl]]. eapply V; eauto.
      + intros loc Hloc. simpl in Hloc. destruct Hloc as [<-|[]]. rewrite app_length; simpl. lia.
    - destruct (nth_error h l) as [[xs|m]|]; try discriminate.
      destruct (dc_entries rec h m) as [[h1 m']|] eqn:E; try discriminate.
      unfold alloc in H. inversion H; subst. apply dc_entries_inv in E. destruct E as [F V].
      pose proof (fresh_ext_len _ _ F). split.
      + apply fresh_ext_alloc; auto. intros loc Hloc. simpl in Hloc. apply in_flat_map in Hloc.
        destruct Hloc as [[k x] [Hx Hl]]. simpl in Hl. eapply V; eauto.
      + intros loc Hloc. simpl in Hloc. destruct Hloc as [<-|[]]. rewrite app_length; simpl. lia.
  Qed.
End DCInv.

(* holds without any well-formedness assumption: deep_copy fails on dangling handles *)
Lemma deep_copy_inv : forall fuel h v h' v', deep_copy fuel h v = Some (h', v') ->
  fresh_ext h h' /\ fresh_val h h' v'.
Proof.
  induction fuel as [|f IH]; intros h v h' v' H; [discriminate|].
  exact (dc_body_inv (deep_copy f) IH h v h' v' H).
Qed.

(* ------------------------------------------------------------------ the effect of one operation *)

Definition heap_effect (h h' : heap) (t : option loc) : Prop :=
  (exists ext, h' = h ++ ext) \/ (exists l o, t = Some l /\ h' = set_nth h l o).

Ltac dm_inner :=
  match goal with
  | |- context [match ?x with _ => _ end] =>
      lazymatch x with
      | context [match _ with _ => _ end] => fail
      | _ => destruct x eqn:?
      end
  end.
Ltac dm_any :=
  match goal with
  | |- context [match ?x with _ => _ end] => destruct x eqn:?
  end.
Ltac dm := first [dm_inner | dm_any].

Ltac solve_effect :=
  first
  [ left; exists []; rewrite app_nil_r; reflexivity
  | left; eexists; reflexivity
  | right; do 2 eexists; split; reflexivity
  | match goal with
    | H : deep_copy _ _ _ = Some _ |- _ =>
        apply deep_copy_inv in H; destruct H as [[[ext ->] _] _]; left; exists ext; reflexivity
    end ].

Section HeapTheorems.
  Variable sort_vals : (val -> val -> comparison) -> list val -> list val.
  Variable sort_entries : (val * hval -> val * hval -> comparison) -> list (val * hval) -> list (val * hval).
  Let step := step sort_vals sort_entries.
  Let exec := exec sort_vals sort_entries.
  Let avoids := avoids sort_vals sort_entries.

  Lemma do_op_effect : forall h env o,
    heap_effect h (sr_heap (do_op sort_vals sort_entries h env o)) (target env o).
  Proof.
    intros h env o.
    destruct o; unfold do_op, target, get_list, get_map, copy_val, alloc, set_obj, ok, err, panic, unsup;
      cbv beta iota zeta;
      repeat (dm; cbv beta iota zeta); cbn [sr_heap]; solve_effect.
  Qed.

  (* ---------------------------------------------------------------- 1. framing of resolve *)

  Theorem resolve_frame : forall (R : region) h1 h2, closed R h1 -> agree R h1 h2 ->
    forall fuel v, within R v -> resolve fuel h1 v = resolve fuel h2 v.
  Proof.
    intros R h1 h2 Hc Ha fuel. induction fuel as [|f IH]; intros v Hw; [reflexivity|].
    rewrite !resolve_S. destruct v as [| | | | |xs|l|l]; try reflexivity.
    - f_equal. apply all_with_ext. intros x Hx. apply IH. eapply within_tuple_elem; eauto.
    - assert (HR : R l = true) by (apply Hw; simpl; auto).
      rewrite <- (Ha l HR). destruct (nth_error h1 l) as [[xs|m]|] eqn:E; try reflexivity.
      f_equal. apply all_with_ext. intros x Hx. apply IH. intros l' Hl'.
      eapply Hc; eauto. simpl. apply in_flat_map; eauto.
    - assert (HR : R l = true) by (apply Hw; simpl; auto).
      rewrite <- (Ha l HR). destruct (nth_error h1 l) as [[xs|m]|] eqn:E; try reflexivity.
      f_equal. apply allm_with_ext. intros k x Hx. apply IH. intros l' Hl'.
      eapply Hc; eauto. simpl. apply in_flat_map. exists (k, x). split; auto.
  Qed.

  (* ---------------------------------------------------------------- 2. one step *)

  Lemma step_heap_eq : forall s o,
    st_heap (fst (step s o)) = sr_heap (do_op sort_vals sort_entries (st_heap s) (st_env s) o).
  Proof. reflexivity. Qed.

  Theorem step_frame : forall s o l, (l < length (st_heap s))%nat -> target (st_env s) o <> Some l ->
    nth_error (st_heap (fst (step s o))) l = nth_error (st_heap s) l.
  Proof.
    intros s o l Hl Ht. rewrite step_heap_eq.
    destruct (do_op_effect (st_heap s) (st_env s) o) as [[ext E]|[l0 [o0 [T E]]]]; rewrite E.
    - apply nth_error_app1; auto.
    - apply nth_error_set_nth_other. intros Heq. apply Ht. rewrite T. f_equal. exact Heq.
  Qed.

  Theorem step_heap_grows : forall s o, (length (st_heap s) <= length (st_heap (fst (step s o))))%nat.
  Proof.
    intros s o. rewrite step_heap_eq.
    destruct (do_op_effect (st_heap s) (st_env s) o) as [[ext E]|[l0 [o0 [T E]]]]; rewrite E.
    - rewrite app_length. lia.
    - rewrite length_set_nth. lia.
  Qed.

  Theorem step_env_stable : forall s o x v, nth_error (st_env s) x = Some v ->
    nth_error (st_env (fst (step s o))) x = Some v.
  Proof.
    intros s o x v H. unfold step, HeapModel.step. simpl.
    destruct (binds o); auto. rewrite nth_error_app1; auto. eapply nth_error_lt; eauto.
  Qed.

  (* ---------------------------------------------------------------- 3. histories *)

  Theorem untargeted_unchanged : forall ops s l, (l < length (st_heap s))%nat -> avoids l s ops ->
    nth_error (st_heap (exec s ops)) l = nth_error (st_heap s) l.
  Proof.
    unfold exec, avoids.
    induction ops as [|o ops IH]; intros s l Hl Hav; simpl; [reflexivity|].
    simpl in Hav. destruct Hav as [Ht Hav].
    rewrite IH; [ | | exact Hav].
    - apply step_frame; auto.
    - eapply Nat.lt_le_trans; [exact Hl | apply (step_heap_grows s o)].
  Qed.

  Theorem exec_env_stable : forall ops s x v, nth_error (st_env s) x = Some v ->
    nth_error (st_env (exec s ops)) x = Some v.
  Proof.
    unfold exec.
    induction ops as [|o ops IH]; intros s x v H; simpl; [exact H|].
    apply IH. apply step_env_stable. exact H.
  Qed.

  Lemma exec_heap_grows : forall ops s, (length (st_heap s) <= length (st_heap (exec s ops)))%nat.
  Proof.
    unfold exec.
    induction ops as [|o ops IH]; intros s; simpl; [lia|].
    eapply Nat.le_trans; [apply (step_heap_grows s o) | apply IH].
  Qed.

  (* ---------------------------------------------------------------- 4. aliasing *)

  Theorem alias_shared : forall s x s1 st, step s (OAlias x) = (s1, st) ->
    forall v, nth_error (st_env s) x = Some v ->
    forall ops (fuel : nat), let s2 := exec s1 ops in
      nth_error (st_env s2) (length (st_env s)) = Some v /\ nth_error (st_env s2) x = Some v.
  Proof.
    intros s x s1 st Hs v Hv ops fuel s2. subst s2.
    destruct s as [h env]. unfold step, HeapModel.step in Hs. simpl in *.
    rewrite Hv in Hs. simpl in Hs. inversion Hs; subst s1 st. clear Hs.
    split; apply exec_env_stable; simpl.
    - apply nth_error_snoc.
    - rewrite nth_error_app1; auto. eapply nth_error_lt; eauto.
  Qed.

  Corollary alias_shows_same : forall s x s1 st, step s (OAlias x) = (s1, st) ->
    forall v, nth_error (st_env s) x = Some v ->
    forall ops fuel, let s2 := exec s1 ops in
      exists a b, nth_error (st_env s2) (length (st_env s)) = Some a /\ nth_error (st_env s2) x = Some b /\
                  resolve fuel (st_heap s2) a = resolve fuel (st_heap s2) b.
  Proof.
    intros s x s1 st Hs v Hv ops fuel s2.
    destruct (alias_shared s x s1 st Hs v Hv ops fuel) as [A B].
    exists v, v. repeat split; auto.
  Qed.


  (* ---------------------------------------------------------------- 5. koto.copy *)

  Theorem copy_top_independent : forall s x l xs s1,
    nth_error (st_env s) x = Some (HList l) -> nth_error (st_heap s) l = Some (OList xs) ->
    step s (OCopy x) = (s1, SOk) ->
    let l' := length (st_heap s) in
    l' <> l /\
    nth_error (st_env s1) (length (st_env s)) = Some (HList l') /\
    nth_error (st_heap s1) l' = Some (OList xs) /\
    nth_error (st_heap s1) l = Some (OList xs) /\
    (forall ops, avoids l' s1 ops -> nth_error (st_heap (exec s1 ops)) l' = Some (OList xs)) /\
    (forall ops, avoids l s1 ops -> nth_error (st_heap (exec s1 ops)) l = Some (OList xs)).
  Proof.
    intros s x l xs s1 Hx Hl Hs l'. subst l'.
    destruct s as [h env]. unfold step, HeapModel.step in Hs. simpl in *.
    rewrite Hx in Hs. simpl in Hs. rewrite Hl in Hs. simpl in Hs.
    inversion Hs; subst s1. clear Hs. simpl.
    assert (Hlt : l < length h) by (eapply nth_error_lt; eauto).
    assert (A : nth_error (h ++ [OList xs]) (length h) = Some (OList xs)) by apply nth_error_snoc.
    assert (B : nth_error (h ++ [OList xs]) l = Some (OList xs)) by (rewrite nth_error_app1; auto).
    split; [lia|]. split; [apply nth_error_snoc|]. split; [exact A|]. split; [exact B|].
    split; intros ops Hav.
    - rewrite untargeted_unchanged; auto. simpl. rewrite app_length. simpl. lia.
    - rewrite untargeted_unchanged; auto. simpl. rewrite app_length. simpl. lia.
  Qed.

  Theorem copy_top_independent_map : forall s x l m s1,
    nth_error (st_env s) x = Some (HMap l) -> nth_error (st_heap s) l = Some (OMap m) ->
    step s (OCopy x) = (s1, SOk) ->
    let l' := length (st_heap s) in
    l' <> l /\
    nth_error (st_env s1) (length (st_env s)) = Some (HMap l') /\
    nth_error (st_heap s1) l' = Some (OMap m) /\
    nth_error (st_heap s1) l = Some (OMap m) /\
    (forall ops, avoids l' s1 ops -> nth_error (st_heap (exec s1 ops)) l' = Some (OMap m)) /\
    (forall ops, avoids l s1 ops -> nth_error (st_heap (exec s1 ops)) l = Some (OMap m)).
  Proof.
    intros s x l m s1 Hx Hl Hs l'. subst l'.
    destruct s as [h env]. unfold step, HeapModel.step in Hs. simpl in *.
    rewrite Hx in Hs. simpl in Hs. rewrite Hl in Hs. simpl in Hs.
    inversion Hs; subst s1. clear Hs. simpl.
    assert (Hlt : l < length h) by (eapply nth_error_lt; eauto).
    assert (A : nth_error (h ++ [OMap m]) (length h) = Some (OMap m)) by apply nth_error_snoc.
    assert (B : nth_error (h ++ [OMap m]) l = Some (OMap m)) by (rewrite nth_error_app1; auto).
    split; [lia|]. split; [apply nth_error_snoc|]. split; [exact A|]. split; [exact B|].
    split; intros ops Hav.
    - rewrite untargeted_unchanged; auto. simpl. rewrite app_length. simpl. lia.
    - rewrite untargeted_unchanged; auto. simpl. rewrite app_length. simpl. lia.
  Qed.

  (* ---------------------------------------------------------------- 6. koto.deep_copy *)

  (* The two well-formedness premises are not needed (deep_copy fails on a dangling handle, so success
     already implies everything reachable is present); they are kept as in the requested statement. *)
  Theorem deep_copy_fresh : forall fuel h v h' v',
    (forall l, In l (locs_of v) -> (l < length h)%nat) ->
    (forall l o, nth_error h l = Some o -> forall l', In l' (obj_locs o) -> (l' < length h)%nat) ->
    deep_copy fuel h v = Some (h', v') ->
    let R := (fun l => Nat.leb (length h) l && Nat.ltb l (length h')) in
    (exists ext, h' = h ++ ext) /\ within R v' /\ closed R h'.
  Proof.
    intros fuel h v h' v' _ _ H R. apply deep_copy_inv in H. destruct H as [[E C] V].
    split; [exact E|]. split.
    - intros l Hl. specialize (V l Hl). unfold R.
      apply andb_true_intro. split; [apply Nat.leb_le | apply Nat.ltb_lt]; lia.
    - intros l o HR Hn l' Hl'. unfold R in *. apply andb_prop in HR. destruct HR as [H1 H2].
      apply Nat.leb_le in H1. specialize (C l o H1 Hn l' Hl').
      apply andb_true_intro. split; [apply Nat.leb_le | apply Nat.ltb_lt]; lia.
  Qed.

  Theorem deep_copy_independent : forall s x s1, wf_state s -> step s (ODeepCopy x) = (s1, SOk) ->
    exists v', nth_error (st_env s1) (length (st_env s)) = Some v' /\
    let R := (fun l => Nat.leb (length (st_heap s)) l && Nat.ltb l (length (st_heap s1))) in
    (forall ops, (forall l, R l = true -> avoids l s1 ops) ->
       forall fuel, resolve fuel (st_heap (exec s1 ops)) v' = resolve fuel (st_heap s1) v') /\
    (forall ops, (forall l, (l < length (st_heap s))%nat -> avoids l s1 ops) ->
       forall fuel y v, nth_error (st_env s) y = Some v ->
         resolve fuel (st_heap (exec s1 ops)) v = resolve fuel (st_heap s) v).
  Proof.
    intros s x s1 [Wenv Wheap] Hs.
    destruct s as [h env]. unfold step, HeapModel.step, do_op in Hs. cbn [st_heap st_env] in *.
    destruct (nth_error env x) as [v|] eqn:Hx; [|discriminate].
    destruct (deep_copy (fuel_of h) h v) as [[h' v']|] eqn:Hd; [|discriminate].
    simpl in Hs. inversion Hs; subst s1. clear Hs. simpl.
    exists v'. split; [apply nth_error_snoc|].
    pose proof (deep_copy_fresh _ _ _ _ _
                  (fun l Hl => Wenv v (nth_error_In _ _ Hx) l Hl) Wheap Hd) as [[ext E] [Wv Cl]].
    split.
    - intros ops Hav fuel. symmetry. apply (resolve_frame _ _ _ Cl); [|exact Wv].
      intros l HR. symmetry.
      apply (untargeted_unchanged ops {| st_heap := h'; st_env := env ++ [v'] |} l); [|apply Hav; exact HR].
      simpl. apply andb_prop in HR. destruct HR as [_ H2]. apply Nat.ltb_lt in H2. exact H2.
    - intros ops Hav fuel y w Hy.
      set (R0 := fun l => Nat.ltb l (length h)).
      symmetry. apply (resolve_frame R0).
      + intros l o HR Hn l' Hl'. apply Nat.ltb_lt. eapply Wheap; eauto.
      + intros l HR. apply Nat.ltb_lt in HR. symmetry.
        rewrite (untargeted_unchanged ops {| st_heap := h'; st_env := env ++ [v'] |} l).
        * simpl. rewrite E. apply nth_error_app1. exact HR.
        * simpl. rewrite E, app_length. lia.
        * apply Hav. exact HR.
      + intros l Hl. apply Nat.ltb_lt. eapply Wenv; [eapply nth_error_In; exact Hy | exact Hl].
  Qed.

  (* ---------------------------------------------------------------- 7. immutable values *)

  Theorem immutables_frozen : forall s ops x v, nth_error (st_env s) x = Some v -> locs_of v = [] ->
    nth_error (st_env (exec s ops)) x = Some v /\
    forall fuel h', resolve fuel h' v = resolve fuel (st_heap s) v.
  Proof.
    intros s ops x v Hx Hl. split; [apply exec_env_stable; exact Hx|].
    intros fuel h'. apply (resolve_frame (fun _ => false)).
    - intros l o HR. discriminate.
    - intros l HR. discriminate.
    - intros l Hin. rewrite Hl in Hin. destruct Hin.
  Qed.

End HeapTheorems.

(* ------------------------------------------------------------------ non-vacuity *)

Definition hist1 : list op :=
  [ONewList [ALit (VNum (I 1%Z))]; OCopy 0; ODeepCopy 0; OPush 0 (ALit (VNum (I 2%Z)))].

Definition hist2 : list op :=
  [ONewList [ALit (VNum (I 1%Z))]; ONewList [AVar 0]; OCopy 1; ODeepCopy 1; OPush 0 (ALit (VNum (I 2%Z)))].

Definition one := VNum (I 1%Z).
Definition two := VNum (I 2%Z).

(* before the push all three names show [1] *)
Example hist1_row_before_push :
  nth_error (HeapModel.run (@isort val) (@isort (val * hval)) empty_state hist1) 2 =
  Some (SOk, [Some (VList [one]); Some (VList [one]); Some (VList [one])]).
Proof. vm_compute; reflexivity. Qed.

(* after pushing through name 0: name 0 changed, the copy (1) and the deep copy (2) did not *)
Example hist1_last_row :
  nth_error (HeapModel.run (@isort val) (@isort (val * hval)) empty_state hist1) 3 =
  Some (SOk, [Some (VList [one; two]); Some (VList [one]); Some (VList [one])]).
Proof. vm_compute; reflexivity. Qed.

(* nested: a push into the inner list shows through the outer list (1) and its shallow copy (2, which
   shares the child), but not through the deep copy (3) *)
Example hist2_last_row :
  nth_error (HeapModel.run (@isort val) (@isort (val * hval)) empty_state hist2) 4 =
  Some (SOk, [Some (VList [one; two]); Some (VList [VList [one; two]]);
              Some (VList [VList [one; two]]); Some (VList [VList [one]])]).
Proof. vm_compute; reflexivity. Qed.
