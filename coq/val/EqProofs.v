(* C14 — proofs about == / != on values and about map keys. *)
From Coq Require Import ZArith List Bool Lia.
From Flocq Require Import IEEE754.Binary IEEE754.Bits.
From KV.val Require Import ValModel ValSpec NumProofs.
Import ListNotations.
Open Scope Z_scope.

(* ------------------------------------------------------------------ induction over nested values *)

Section ValInd.
  Variable P : val -> Prop.
  Hypothesis Hnull : P VNull.
  Hypothesis Hbool : forall b, P (VBool b).
  Hypothesis Hnum : forall n, P (VNum n).
  Hypothesis Hstr : forall s, P (VStr s).
  Hypothesis Hrange : forall lo hi, P (VRange lo hi).
  Hypothesis Hlist : forall l, Forall P l -> P (VList l).
  Hypothesis Htuple : forall l, Forall P l -> P (VTuple l).
  Hypothesis Hmap : forall m, Forall (fun e => P (fst e) /\ P (snd e)) m -> P (VMap m).

  Fixpoint val_ind' (v : val) : P v :=
    match v with
    | VNull => Hnull
    | VBool b => Hbool b
    | VNum n => Hnum n
    | VStr s => Hstr s
    | VRange lo hi => Hrange lo hi
    | VList l => Hlist l ((fix go (l : list val) : Forall P l :=
                             match l with [] => Forall_nil P | x :: r => Forall_cons x (val_ind' x) (go r) end) l)
    | VTuple l => Htuple l ((fix go (l : list val) : Forall P l :=
                               match l with [] => Forall_nil P | x :: r => Forall_cons x (val_ind' x) (go r) end) l)
    | VMap m => Hmap m ((fix go (m : list (val * val)) : Forall (fun e => P (fst e) /\ P (snd e)) m :=
                           match m with
                           | [] => Forall_nil _
                           | (k, x) :: r => Forall_cons (k, x) (conj (val_ind' k) (val_ind' x)) (go r)
                           end) m)
    end.
End ValInd.

(* the inner loops of the model, named *)
Fixpoint zip_all (f : val -> val -> bool) (x y : list val) : bool :=
  match x, y with
  | u :: x', w :: y' => f u w && zip_all f x' y'
  | _, _ => true
  end.

Fixpoint all_b (f : val -> bool) (l : list val) : bool :=
  match l with [] => true | x :: r => f x && all_b f r end.

Fixpoint cat_streams (l : list val) : list hword :=
  match l with [] => [] | x :: r => hstream x ++ cat_streams r end.

Lemma veq_list : forall x y, veq (VList x) (VList y) = Nat.eqb (length x) (length y) && zip_all veq x y.
Proof. intros. simpl. f_equal. revert y. induction x; destruct y; simpl; auto; try (now rewrite IHx). Qed.

Lemma veq_tuple : forall x y, veq (VTuple x) (VTuple y) = Nat.eqb (length x) (length y) && zip_all veq x y.
Proof. intros. simpl. f_equal. revert y. induction x; destruct y; simpl; auto; try (now rewrite IHx). Qed.

Lemma key_eq_tuple : forall x y, key_eq (VTuple x) (VTuple y) = Nat.eqb (length x) (length y) && zip_all key_eq x y.
Proof. intros. simpl. f_equal. revert y. induction x; destruct y; simpl; auto; try (now rewrite IHx). Qed.

Lemma hashable_tuple : forall l, hashable (VTuple l) = all_b hashable l.
Proof. intros. simpl. induction l; simpl; auto; try (now rewrite IHl). Qed.

Lemma hstream_tuple : forall l, hstream (VTuple l) = cat_streams l.
Proof. intros. simpl. induction l; simpl; auto; try (now rewrite IHl). Qed.

Lemma nan_free_tuple : forall l, nan_free (VTuple l) = all_b nan_free l.
Proof. intros. simpl. induction l; simpl; auto; try (now rewrite IHl). Qed.

Lemma kfine_tuple : forall l, kfine (VTuple l) = all_b kfine l.
Proof. intros. simpl. induction l; simpl; auto; try (now rewrite IHl). Qed.

Lemma nan_free_list : forall l, nan_free (VList l) = all_b nan_free l.
Proof. intros. simpl. induction l; simpl; auto; try (now rewrite IHl). Qed.

(* the map loop of veq *)
Fixpoint map_all (y : list (val * val)) (x : list (val * val)) : bool :=
  match x with
  | [] => true
  | (k, v) :: x' => match map_get y k with Some w => veq v w && map_all y x' | None => false end
  end.

Lemma veq_map : forall x y, veq (VMap x) (VMap y) = Nat.eqb (length x) (length y) && map_all y x.
Proof. intros. simpl. f_equal. induction x as [|[k v] x IH]; simpl; auto. destruct (map_get y k); auto. now rewrite IH. Qed.

(* ------------------------------------------------------------------ != is the negation of == *)

Theorem vne_is_negb_veq : forall a b, vne a b = negb (veq a b).
Proof. intros x y. destruct x; destruct y; reflexivity. Qed.

(* ------------------------------------------------------------------ basic facts *)

Lemma bytes_eqb_refl : forall a, bytes_eqb a a = true.
Proof. induction a; simpl; auto. now rewrite Z.eqb_refl. Qed.

Lemma bytes_eqb_eq : forall a b, bytes_eqb a b = true <-> a = b.
Proof.
  induction a; destruct b; simpl; split; intros H; try discriminate; auto.
  - apply andb_prop in H. destruct H as [A B]. apply Z.eqb_eq in A. apply IHa in B. now subst.
  - inversion H; subst. now rewrite Z.eqb_refl, bytes_eqb_refl.
Qed.

Lemma bytes_eqb_sym : forall a b, bytes_eqb a b = bytes_eqb b a.
Proof. induction a; destruct b; simpl; auto. now rewrite Z.eqb_sym, IHa. Qed.

Lemma optz_eqb_eq : forall a b, optz_eqb a b = true <-> a = b.
Proof.
  destruct a, b; simpl; split; intros H; try discriminate; auto.
  - apply Z.eqb_eq in H. now subst.
  - inversion H. apply Z.eqb_refl.
Qed.

Lemma hi_eqb_eq : forall a b, hi_eqb a b = true <-> a = b.
Proof.
  destruct a as [[x i]|], b as [[y j]|]; simpl; split; intros H; try discriminate; auto.
  - apply andb_prop in H. destruct H as [A B]. apply Z.eqb_eq in A. apply Bool.eqb_prop in B. now subst.
  - inversion H; subst. now rewrite Z.eqb_refl, Bool.eqb_reflx.
Qed.

Lemma range_eqb_eq : forall l1 h1 l2 h2, range_eqb l1 h1 l2 h2 = true <-> l1 = l2 /\ h1 = h2.
Proof.
  intros. unfold range_eqb. rewrite andb_true_iff, optz_eqb_eq, hi_eqb_eq. tauto.
Qed.

Lemma range_eqb_refl : forall l h, range_eqb l h l h = true.
Proof. intros. apply range_eqb_eq. auto. Qed.

Lemma range_eqb_sym : forall l1 h1 l2 h2, range_eqb l1 h1 l2 h2 = range_eqb l2 h2 l1 h1.
Proof.
  intros. destruct (range_eqb l1 h1 l2 h2) eqn:E.
  - apply range_eqb_eq in E. destruct E; subst. symmetry. apply range_eqb_refl.
  - destruct (range_eqb l2 h2 l1 h1) eqn:E2; auto. apply range_eqb_eq in E2. destruct E2; subst.
    rewrite range_eqb_refl in E. discriminate.
Qed.

Lemma hword_eqb_eq : forall a b, hword_eqb a b = true <-> a = b.
Proof.
  destruct a, b; simpl; split; intros H; try discriminate; try (inversion H; subst);
    try (apply Z.eqb_eq in H; now subst); try apply Z.eqb_refl.
  - apply bytes_eqb_eq in H. now subst.
  - apply bytes_eqb_refl.
Qed.

Lemma hstream_eqb_eq : forall a b, hstream_eqb a b = true <-> a = b.
Proof.
  induction a; destruct b; simpl; split; intros H; try discriminate; auto.
  - apply andb_prop in H. destruct H as [A B]. apply hword_eqb_eq in A. apply IHa in B. now subst.
  - inversion H; subst. apply andb_true_intro. split. now apply hword_eqb_eq. now apply IHa.
Qed.

(* ------------------------------------------------------------------ ValueKey equality is == *)

Lemma zip_all_ext : forall f g x y, Forall (fun u => forall w, f u w = g u w) x -> zip_all f x y = zip_all g x y.
Proof.
  induction x; destruct y; simpl; intros H; auto. inversion H; subst. now rewrite H2, IHx.
Qed.

Theorem key_eq_is_veq : forall x y, hashable x = true -> key_eq x y = veq x y.
Proof.
  induction x using val_ind'; intros y Ha; destruct y; try reflexivity; try discriminate.
  rewrite key_eq_tuple, veq_tuple. f_equal.
  rewrite hashable_tuple in Ha. clear -H Ha. revert l0.
  induction l; destruct l0; simpl; auto. inversion H; subst. simpl in Ha. apply andb_prop in Ha. destruct Ha.
  rewrite H2 by assumption. f_equal. now apply IHl.
Qed.

(* ------------------------------------------------------------------ keys: reflexive, symmetric *)

Lemma eqb_sym_bool : forall p q, Bool.eqb p q = Bool.eqb q p.
Proof. destruct p, q; reflexivity. Qed.


Lemma key_eq_refl : forall k, hashable k = true -> kfine k = true -> key_eq k k = true.
Proof.
  induction k using val_ind'; intros Hh Hn; try discriminate; try reflexivity.
  - destruct b; reflexivity.
  - simpl in *. apply andb_prop in Hn. destruct Hn. now apply num_eq_refl.
  - simpl. apply bytes_eqb_refl.
  - simpl. apply range_eqb_refl.
  - rewrite key_eq_tuple, Nat.eqb_refl. simpl. rewrite hashable_tuple in Hh. rewrite kfine_tuple in Hn.
    induction l; simpl in *; auto. inversion H; subst. apply andb_prop in Hh. apply andb_prop in Hn.
    destruct Hh, Hn. rewrite H2 by assumption. simpl. now apply IHl.
Qed.

Lemma key_eq_sym : forall x y, key_eq x y = key_eq y x.
Proof.
  induction x using val_ind'; intros y; destruct y; try reflexivity.
  - simpl. apply eqb_sym_bool.
  - simpl. apply num_eq_sym.
  - simpl. apply bytes_eqb_sym.
  - simpl. apply range_eqb_sym.
  - rewrite !key_eq_tuple. rewrite Nat.eqb_sym. f_equal. revert l0.
    induction l; destruct l0; simpl; auto. inversion H; subst. now rewrite H2, IHl.
Qed.

Definition kmatch (q k : val) : bool := hstream_eqb (hstream q) (hstream k) && key_eq q k.

Lemma key_match_kmatch : forall q k, key_match q k = kmatch q k.
Proof. reflexivity. Qed.

Lemma kmatch_sym : forall a b, kmatch a b = kmatch b a.
Proof.
  intros. unfold kmatch. rewrite key_eq_sym. f_equal.
  destruct (hstream_eqb (hstream a) (hstream b)) eqn:E.
  - apply hstream_eqb_eq in E. rewrite E. symmetry. now apply hstream_eqb_eq.
  - destruct (hstream_eqb (hstream b) (hstream a)) eqn:E2; auto. apply hstream_eqb_eq in E2.
    rewrite E2 in E. assert (hstream_eqb (hstream a) (hstream a) = true) by now apply hstream_eqb_eq. congruence.
Qed.

Lemma kmatch_refl : forall k, hashable k = true -> kfine k = true -> kmatch k k = true.
Proof. intros. unfold kmatch. rewrite key_eq_refl by assumption. rewrite (proj2 (hstream_eqb_eq _ _)); auto. Qed.

(* ------------------------------------------------------------------ the hash respects == (fix of C14a) *)

Lemma tuple_split : forall x y, key_eq (VTuple x) (VTuple y) = true -> length x = length y /\ zip_all key_eq x y = true.
Proof.
  intros x y E. rewrite key_eq_tuple in E. apply andb_prop in E. destruct E as [A B].
  split; auto. now apply Nat.eqb_eq.
Qed.

(* equal keys feed the hasher the same input: for ALL values *)
Theorem hash_respects_eq : forall x y, key_eq x y = true -> hstream x = hstream y.
Proof.
  induction x using val_ind'; intros y; destruct y; intros E; try discriminate E; try reflexivity.
  - simpl in *. apply Bool.eqb_prop in E. now subst.
  - simpl in *. now rewrite (num_hash_respects_eq _ _ E).
  - simpl in *. apply bytes_eqb_eq in E. now subst.
  - simpl in E. apply range_eqb_eq in E. destruct E; subst. reflexivity.
  - rewrite !hstream_tuple. apply tuple_split in E. destruct E as [L E]. revert l0 L E.
    induction l as [|u l IHl]; intros l0 L E; destruct l0 as [|w l0]; simpl in *; try discriminate; auto.
    inversion H as [|? ? Hu Hl]; subst. apply andb_prop in E. destruct E as [E1 E2].
    rewrite (Hu _ E1). f_equal. apply IHl; auto.
Qed.

Lemma kmatch_key_eq : forall a b, kmatch a b = key_eq a b.
Proof.
  intros a b. unfold kmatch. destruct (key_eq a b) eqn:E.
  - rewrite (hash_respects_eq a b E). rewrite (proj2 (hstream_eqb_eq _ _)); auto.
  - apply andb_false_r.
Qed.

Theorem hash_ok_all : forall U : val -> Prop, hash_ok_on U.
Proof. intros U a b _ _ E. apply hstream_eqb_eq. now apply hash_respects_eq. Qed.

(* ------------------------------------------------------------------ keys: == is transitive on exact keys *)

Lemma key_eq_trans : forall a b c, kfine a = true -> kfine b = true -> kfine c = true ->
    key_eq a b = true -> key_eq b c = true -> key_eq a c = true.
Proof.
  induction a using val_ind'; intros y z Na Nb Nc E1 E2; destruct y; try discriminate E1; destruct z; try discriminate E2;
    try reflexivity.
  - simpl in *. apply Bool.eqb_prop in E1. apply Bool.eqb_prop in E2. subst. apply Bool.eqb_reflx.
  - simpl in Na, Nb, Nc. apply andb_prop in Na. apply andb_prop in Nb. apply andb_prop in Nc.
    destruct Na, Nb, Nc. change (num_eq n n0 = true) in E1. change (num_eq n0 n1 = true) in E2.
    change (num_eq n n1 = true). apply (num_eq_trans_exact n n0 n1); assumption.
  - simpl in *. apply bytes_eqb_eq in E1. apply bytes_eqb_eq in E2. subst. apply bytes_eqb_refl.
  - simpl in *. apply range_eqb_eq in E1. apply range_eqb_eq in E2. destruct E1, E2; subst. apply range_eqb_refl.
  - rewrite kfine_tuple in *.
    apply tuple_split in E1. destruct E1 as [L1 E1]. apply tuple_split in E2. destruct E2 as [L2 E2].
    rewrite key_eq_tuple. apply andb_true_intro. split. apply Nat.eqb_eq. congruence.
    revert l0 l1 L1 L2 Na Nb Nc E1 E2.
    induction l; intros l0 l1 L1 L2 Na Nb Nc E1 E2; destruct l0 as [|u l0]; destruct l1 as [|w l1]; simpl in *; try discriminate; auto.
    inversion H as [|? ? Hu Hl]; subst. inversion L1. inversion L2.
    apply andb_prop in E1. destruct E1 as [E1 E1']. apply andb_prop in E2. destruct E2 as [E2 E2'].
    apply andb_prop in Na. destruct Na. apply andb_prop in Nb. destruct Nb. apply andb_prop in Nc. destruct Nc.
    apply andb_true_intro. split.
    + apply (Hu u w); assumption.
    + apply (IHl Hl l0 l1); assumption.
Qed.

Lemma kmatch_trans : forall a b c,
    hashable a = true -> kfine a = true -> kfine b = true -> kfine c = true ->
    kmatch a b = true -> kmatch b c = true -> kmatch a c = true.
Proof. intros a b c _ Na Nb Nc. rewrite !kmatch_key_eq. now apply key_eq_trans. Qed.

(* ------------------------------------------------------------------ lookups as first match *)

Fixpoint lookup_val {V} (f : val -> bool) (m : list (val * V)) : option V :=
  match m with [] => None | (k, v) :: r => if f k then Some v else lookup_val f r end.

Lemma find_from_shift : forall V f (m : list (val * V)) i, find_from f m (S i) = option_map S (find_from f m i).
Proof. induction m as [|[k v] m IH]; simpl; intros; auto. destruct (f k); auto. Qed.

Lemma find_lookup : forall V f (m : list (val * V)),
    match find_from f m 0 with Some j => option_map snd (nth_error m j) | None => None end = lookup_val f m.
Proof.
  induction m as [|[k v] m IH]; simpl; auto. destruct (f k); simpl; auto.
  rewrite find_from_shift. destruct (find_from f m 0); simpl in *; auto.
Qed.

Lemma map_get_cases : forall V (m : list (val * V)) q,
    map_get m q = match m with
                  | [] => None
                  | [(k, v)] => if key_eq q k then Some v else None
                  | _ => lookup_val (kmatch q) m
                  end.
Proof.
  intros V m q. unfold map_get, get_index_of. destruct m as [|[k v] [|e r]]; auto.
  - destruct (key_eq q k); reflexivity.
  - unfold find_hashed. apply (find_lookup V (key_match q) ((k, v) :: e :: r)).
Qed.

(* ------------------------------------------------------------------ well-formed values *)

Fixpoint distinctb (ks : list val) : bool :=
  match ks with [] => true | k :: r => negb (existsb (kmatch k) r) && distinctb r end.

(* NaN-free, integers in range, and every map has hashable keys (with exactly convertible integers) no two of
   which address the same entry *)
Fixpoint wf_val (v : val) : bool :=
  match v with
  | VNum n => num_ok n
  | VList l | VTuple l => (fix all (l : list val) := match l with [] => true | x :: r => wf_val x && all r end) l
  | VMap m => distinctb (map fst m) &&
      (fix all (m : list (val * val)) := match m with [] => true | (k, x) :: r => hashable k && kfine k && wf_val x && all r end) m
  | _ => true
  end.

Fixpoint wf_entries (m : list (val * val)) : bool :=
  match m with [] => true | (k, x) :: r => hashable k && kfine k && wf_val x && wf_entries r end.

Lemma wf_list : forall l, wf_val (VList l) = all_b wf_val l.
Proof. intros. simpl. induction l; simpl; auto; try (now rewrite IHl). Qed.
Lemma wf_tuple : forall l, wf_val (VTuple l) = all_b wf_val l.
Proof. intros. simpl. induction l; simpl; auto; try (now rewrite IHl). Qed.
Lemma wf_map : forall m, wf_val (VMap m) = distinctb (map fst m) && wf_entries m.
Proof. intros. simpl. f_equal. Qed.

Definition key_ok (k : val) : Prop := hashable k = true /\ kfine k = true.

(* keys of a well-formed map: pairwise different entries *)
Definition Distinct (ks : list val) : Prop :=
  NoDup ks /\ forall x y, In x ks -> In y ks -> kmatch x y = true -> x = y.

Lemma distinctb_Distinct : forall ks, (forall k, In k ks -> key_ok k) -> distinctb ks = true -> Distinct ks.
Proof.
  induction ks as [|k r IH]; intros OK D.
  - split. constructor. intros x y [].
  - simpl in D. apply andb_prop in D. destruct D as [D1 D2]. apply negb_true_iff in D1.
    assert (NM : forall y, In y r -> kmatch k y = false).
    { intros y Hy. destruct (kmatch k y) eqn:E; auto.
      assert (existsb (kmatch k) r = true) by (apply existsb_exists; eauto). congruence. }
    destruct (IH (fun x Hx => OK x (or_intror Hx)) D2) as [ND P].
    assert (KK : kmatch k k = true) by (destruct (OK k (or_introl eq_refl)); now apply kmatch_refl).
    split.
    + constructor; auto. intro Hin. rewrite (NM k Hin) in KK. discriminate.
    + intros x y [<-|Hx] [<-|Hy] E; auto.
      * rewrite (NM y Hy) in E. discriminate.
      * rewrite kmatch_sym, (NM x Hx) in E. discriminate.
Qed.

Lemma wf_entries_keys : forall m, wf_entries m = true -> forall k, In k (map fst m) -> key_ok k.
Proof.
  induction m as [|[k0 x] m IH]; simpl; intros W k [].
  - subst. repeat (apply andb_prop in W; destruct W as [W ?]). split; auto.
  - repeat (apply andb_prop in W; destruct W as [W ?]). apply IH; auto.
Qed.

Lemma wf_entries_vals : forall m, wf_entries m = true -> forall k v, In (k, v) m -> wf_val v = true.
Proof.
  induction m as [|[k0 x] m IH]; simpl; intros W k v [].
  - inversion H; subst. repeat (apply andb_prop in W; destruct W as [W ?]). auto.
  - repeat (apply andb_prop in W; destruct W as [W ?]). eapply IH; eauto.
Qed.

Lemma nodup_fst_unique : forall V (m : list (val * V)) k v v',
    NoDup (map fst m) -> In (k, v) m -> In (k, v') m -> v = v'.
Proof.
  induction m as [|[k0 x] m IH]; simpl; intros k v v' ND [] []; inversion ND; subst.
  - congruence.
  - inversion H; subst. exfalso. apply H3. apply in_map_iff. exists (k, v'). auto.
  - inversion H0; subst. exfalso. apply H3. apply in_map_iff. exists (k, v). auto.
  - eapply IH; eauto.
Qed.

(* the entry a key addresses in a well-formed map: THE entry whose key matches it *)
Lemma lookup_unique : forall V (m : list (val * V)) q k v,
    Distinct (map fst m) -> (forall x, In x (map fst m) -> key_ok x) -> kfine q = true ->
    In (k, v) m -> kmatch q k = true -> lookup_val (kmatch q) m = Some v.
Proof.
  intros V m q k v [ND P] OK Nq Hin Hm.
  assert (Hk : In k (map fst m)) by (apply in_map_iff; exists (k, v); auto).
  induction m as [|[k0 x] m IH]; [destruct Hin|].
  simpl. destruct (kmatch q k0) eqn:E.
  - (* k0 matches q, q matches k: k0 = k *)
    assert (kmatch k0 k = true).
    { destruct (OK k0 (or_introl eq_refl)). destruct (OK k Hk).
      apply (kmatch_trans k0 q k); auto. now rewrite kmatch_sym. }
    assert (k0 = k) by (apply P; simpl; auto). subst.
    f_equal. eapply nodup_fst_unique; eauto. now left.
  - destruct Hin as [Heq|Hin].
    + inversion Heq; subst. congruence.
    + inversion ND; subst. apply IH; auto.
      * intros a b Ha Hb. apply P; simpl; auto.
      * intros a Ha. apply OK. simpl; auto.
      * apply in_map_iff. exists (k, v). auto.
Qed.

(* ------------------------------------------------------------------ == is reflexive *)

Lemma map_all_spec : forall y x, map_all y x = true <->
    forall k v, In (k, v) x -> exists w, map_get y k = Some w /\ veq v w = true.
Proof.
  induction x as [|[k0 v0] x IH]; simpl; split; intros H; auto.
  - intros k v [].
  - destruct (map_get y k0) as [w|] eqn:G; try discriminate. apply andb_prop in H. destruct H as [H1 H2].
    intros k v [Heq|Hin].
    + inversion Heq; subst. exists w. auto.
    + apply (proj1 IH H2). exact Hin.
  - destruct (H k0 v0 (or_introl eq_refl)) as (w & G & E). rewrite G, E. simpl.
    apply IH. intros k v Hin. apply H. now right.
Qed.

Lemma map_get_self : forall m k v, wf_val (VMap m) = true -> In (k, v) m -> map_get m k = Some v.
Proof.
  intros m k v W Hin. rewrite wf_map in W. apply andb_prop in W. destruct W as [D W].
  pose proof (wf_entries_keys m W) as OK.
  assert (Hk : In k (map fst m)) by (apply in_map_iff; exists (k, v); auto).
  destruct (OK k Hk) as [Hh Hn].
  rewrite map_get_cases. destruct m as [|[k0 v0] [|e r]].
  - destruct Hin.
  - destruct Hin as [Heq|[]]. inversion Heq; subst. now rewrite key_eq_refl.
  - apply lookup_unique with (k := k); auto.
    + apply distinctb_Distinct; auto.
    + now apply kmatch_refl.
Qed.

Theorem veq_refl : forall v, wf_val v = true -> veq v v = true.
Proof.
  induction v using val_ind'; intros W; try reflexivity.
  - destruct b; reflexivity.
  - simpl in *. now apply num_eq_refl.
  - simpl. apply bytes_eqb_refl.
  - simpl. apply range_eqb_refl.
  - rewrite veq_list, Nat.eqb_refl. simpl. rewrite wf_list in W.
    induction l; simpl in *; auto. inversion H; subst. apply andb_prop in W. destruct W. rewrite H2, IHl; auto.
  - rewrite veq_tuple, Nat.eqb_refl. simpl. rewrite wf_tuple in W.
    induction l; simpl in *; auto. inversion H; subst. apply andb_prop in W. destruct W. rewrite H2, IHl; auto.
  - rewrite veq_map, Nat.eqb_refl. simpl. apply map_all_spec. intros k v Hin.
    exists v. split. now apply map_get_self.
    rewrite Forall_forall in H. destruct (H (k, v) Hin) as [_ Hv]. apply Hv.
    rewrite wf_map in W. apply andb_prop in W. destruct W as [_ W]. eapply wf_entries_vals; eauto.
Qed.

(* ------------------------------------------------------------------ == is symmetric *)

Lemma map_get_multi : forall V (m : list (val * V)) q, (2 <= length m)%nat -> map_get m q = lookup_val (kmatch q) m.
Proof.
  intros V m q L. rewrite map_get_cases. destruct m as [|[k v] [|e r]]; simpl in L; try lia. reflexivity.
Qed.

Lemma lookup_found : forall V f (m : list (val * V)) w, lookup_val f m = Some w -> exists k, In (k, w) m /\ f k = true.
Proof.
  induction m as [|[k v] m IH]; simpl; intros w H; try discriminate.
  destruct (f k) eqn:E.
  - inversion H; subst. exists k. auto.
  - destruct (IH w H) as (k' & ? & ?). exists k'. auto.
Qed.

Lemma nodup_map_inj : forall {A B} (f : A -> B) (l : list A),
    NoDup l -> (forall x y, In x l -> In y l -> f x = f y -> x = y) -> NoDup (map f l).
Proof.
  induction l; simpl; intros ND Inj. constructor.
  inversion ND; subst. constructor.
  - intro Hin. apply in_map_iff in Hin. destruct Hin as (x & E & Hx).
    assert (x = a) by (apply Inj; auto). subst. contradiction.
  - apply IHl; auto.
Qed.

(* matching keys between two well-formed maps of the same size: if every key of the first finds a partner
   in the second, every key of the second has a partner in the first (pigeonhole) *)
Lemma km_surj : forall K1 K2, Distinct K1 -> Distinct K2 ->
    (forall k, In k K1 -> key_ok k) -> (forall k, In k K2 -> key_ok k) -> length K1 = length K2 ->
    (forall k, In k K1 -> exists k', In k' K2 /\ kmatch k k' = true) ->
    forall k', In k' K2 -> exists k, In k K1 /\ kmatch k k' = true.
Proof.
  intros K1 K2 [ND1 P1] [ND2 P2] OK1 OK2 L H.
  set (g := fun k => match find (kmatch k) K2 with Some k' => k' | None => VNull end).
  assert (G : forall k, In k K1 -> In (g k) K2 /\ kmatch k (g k) = true).
  { intros k Hk. destruct (H k Hk) as (k' & Hk' & E). unfold g. destruct (find (kmatch k) K2) eqn:F.
    - apply find_some in F. auto.
    - apply (find_none _ _ F) in Hk'. congruence. }
  assert (NDL : NoDup (map g K1)).
  { apply nodup_map_inj; auto. intros x y Hx Hy E.
    destruct (G x Hx) as [_ Ex]. destruct (G y Hy) as [Iy Ey]. rewrite E in Ex.
    apply P1; auto. destruct (OK1 x Hx), (OK1 y Hy), (OK2 (g y) Iy).
    apply (kmatch_trans x (g y) y); auto. now rewrite kmatch_sym. }
  assert (INC : incl (map g K1) K2).
  { intros z Hz. apply in_map_iff in Hz. destruct Hz as (k & <- & Hk). now apply G. }
  assert (INC2 : incl K2 (map g K1)).
  { apply NoDup_length_incl; auto. rewrite map_length. lia. }
  intros k' Hk'. apply INC2 in Hk'. apply in_map_iff in Hk'. destruct Hk' as (k & <- & Hk).
  exists k. split; auto. now apply G.
Qed.

Lemma zip_all_sym : forall (x y : list val),
    Forall (fun u => forall w, wf_val u = true -> wf_val w = true -> veq u w = true -> veq w u = true) x ->
    all_b wf_val x = true -> all_b wf_val y = true -> length x = length y ->
    zip_all veq x y = true -> zip_all veq y x = true.
Proof.
  induction x as [|u x IHx]; destruct y as [|w y]; simpl; intros IH Wx Wy L H; try discriminate; auto.
  inversion IH as [|? ? Hu Hx]; subst. apply andb_prop in Wx. destruct Wx as [Wu Wx]. apply andb_prop in Wy. destruct Wy as [Ww Wy].
  apply andb_prop in H. destruct H as [H1 H2]. apply andb_true_intro. split.
  - apply Hu; auto.
  - apply IHx; auto.
Qed.

Theorem veq_sym : forall a b, wf_val a = true -> wf_val b = true -> veq a b = true -> veq b a = true.
Proof.
  induction a using val_ind'; intros y Wa Wb E; destruct y; try discriminate E; try reflexivity.
  - simpl in *. now rewrite eqb_sym_bool.
  - simpl in *. now rewrite num_eq_sym.
  - simpl in *. now rewrite bytes_eqb_sym.
  - simpl in *. now rewrite range_eqb_sym.
  - rewrite veq_list in *. apply andb_prop in E. destruct E as [L E]. rewrite Nat.eqb_sym, L. simpl.
    rewrite wf_list in *. apply Nat.eqb_eq in L. apply zip_all_sym; auto.
  - rewrite veq_tuple in *. apply andb_prop in E. destruct E as [L E]. rewrite Nat.eqb_sym, L. simpl.
    rewrite wf_tuple in *. apply Nat.eqb_eq in L. apply zip_all_sym; auto.
  - rename m0 into m2. rewrite veq_map in *. apply andb_prop in E. destruct E as [L E].
    rewrite Nat.eqb_sym, L. simpl. apply Nat.eqb_eq in L.
    pose proof Wa as Wa'. pose proof Wb as Wb'.
    rewrite wf_map in Wa, Wb. apply andb_prop in Wa. destruct Wa as [D1 E1]. apply andb_prop in Wb. destruct Wb as [D2 E2].
    pose proof (wf_entries_keys m E1) as OK1. pose proof (wf_entries_keys m2 E2) as OK2.
    pose proof (distinctb_Distinct _ OK1 D1) as DD1. pose proof (distinctb_Distinct _ OK2 D2) as DD2.
    rewrite map_all_spec in E. apply map_all_spec. intros k' w Hin2.
    rewrite Forall_forall in H.
    assert (IHv : forall k v, In (k, v) m -> forall w, wf_val w = true -> veq v w = true -> veq w v = true).
    { intros k v Hin w0 Ww Ev. destruct (H (k, v) Hin) as [_ Hv]. simpl in Hv. apply Hv; auto. exact (wf_entries_vals m E1 k v Hin). }
    destruct (Nat.lt_ge_cases (length m) 2) as [Small|Big].
    + (* at most one entry: the fast path compares with == only *)
      destruct m as [|[k1 v1] [|e1 r1]]; destruct m2 as [|[k2 v2] [|e2 r2]]; simpl in L, Small; try discriminate; try lia.
      * destruct Hin2.
      * destruct Hin2 as [Heq|[]]. inversion Heq; subst.
        destruct (E k1 v1 (or_introl eq_refl)) as (w0 & G & Ev). rewrite map_get_cases in G.
        destruct (key_eq k1 k') eqn:K; try discriminate. inversion G; subst.
        exists v1. split. rewrite map_get_cases, key_eq_sym, K. reflexivity.
        apply (IHv k1 v1); simpl; auto. eapply wf_entries_vals; eauto. simpl; auto.
    + assert (Big2 : (2 <= length m2)%nat) by lia.
      assert (KS : forall k, In k (map fst m) -> exists k2, In k2 (map fst m2) /\ kmatch k k2 = true).
      { intros k Hk. apply in_map_iff in Hk. destruct Hk as ([k0 v] & <- & Hin). simpl.
        destruct (E k0 v Hin) as (w0 & G & _). rewrite map_get_multi in G by assumption.
        apply lookup_found in G. destruct G as (k2 & Hin' & M). exists k2. split; auto.
        apply in_map_iff. exists (k2, w0). auto. }
      assert (Hk' : In k' (map fst m2)) by (apply in_map_iff; exists (k', w); auto).
      destruct (km_surj (map fst m) (map fst m2) DD1 DD2 OK1 OK2 ltac:(now rewrite !map_length) KS k' Hk') as (k & Hk & M).
      apply in_map_iff in Hk. destruct Hk as ([k0 v] & Ek & Hin1). simpl in Ek. subst k0.
      exists v. split.
      * rewrite map_get_multi by assumption. apply lookup_unique with (k := k); auto.
        destruct (OK2 k' Hk'); auto. now rewrite kmatch_sym.
      * destruct (E k v Hin1) as (w0 & G & Ev). rewrite map_get_multi in G by assumption.
        assert (Hk1 : In k (map fst m)) by (apply in_map_iff; exists (k, v); auto).
        rewrite (lookup_unique _ m2 k k' w DD2 OK2) in G; auto; [|destruct (OK1 k Hk1); auto].
        inversion G; subst. apply (IHv k v Hin1); auto. eapply wf_entries_vals; eauto.
Qed.

Corollary veq_sym_eq : forall a b, wf_val a = true -> wf_val b = true -> veq a b = veq b a.
Proof.
  intros a b Wa Wb. destruct (veq a b) eqn:E1; destruct (veq b a) eqn:E2; auto.
  - rewrite (veq_sym a b Wa Wb E1) in E2. discriminate.
  - rewrite (veq_sym b a Wb Wa E2) in E1. discriminate.
Qed.

(* ------------------------------------------------------------------ key identity *)

Lemma find_from_sound : forall V f (m : list (val * V)) i,
    find_from f m 0 = Some i -> exists k v, nth_error m i = Some (k, v) /\ f k = true.
Proof.
  induction m as [|[k v] m IH]; simpl; intros i H; try discriminate.
  destruct (f k) eqn:E.
  - inversion H; subst. exists k, v. auto.
  - rewrite find_from_shift in H. destruct (find_from f m 0) as [j|] eqn:F; try discriminate.
    inversion H; subst. simpl. apply IH. reflexivity.
Qed.

Lemma find_from_none : forall V f (m : list (val * V)) i, find_from f m i = None -> forall k, In k (map fst m) -> f k = false.
Proof.
  induction m as [|[k v] m IH]; simpl; intros i H x []; destruct (f k) eqn:E; try discriminate; subst; auto.
  eapply IH; eauto.
Qed.

Lemma find_unique_idx : forall V (m : list (val * V)) q i k v,
    Distinct (map fst m) -> (forall x, In x (map fst m) -> key_ok x) -> kfine q = true ->
    nth_error m i = Some (k, v) -> kmatch q k = true -> find_from (kmatch q) m 0 = Some i.
Proof.
  induction m as [|[k0 x] m IH]; intros q i k v [ND P] OK Nq Hn Hm.
  - destruct i; discriminate.
  - simpl. assert (Hk : In k (map fst ((k0, x) :: m))).
    { apply in_map_iff. exists (k, v). split; auto. eapply nth_error_In; eauto. }
    destruct (kmatch q k0) eqn:E.
    + assert (kmatch k0 k = true).
      { destruct (OK k0 (or_introl eq_refl)). destruct (OK k Hk).
        apply (kmatch_trans k0 q k); auto. now rewrite kmatch_sym. }
      assert (k0 = k) by (apply P; simpl; auto). subst.
      destruct i; auto. simpl in Hn. inversion ND; subst. exfalso. apply H2.
      apply in_map_iff. exists (k, v). split; auto. eapply nth_error_In; eauto.
    + destruct i; simpl in Hn.
      * inversion Hn; subst. congruence.
      * rewrite find_from_shift. inversion ND; subst.
        rewrite (IH q i k v); auto.
        -- split; auto. intros a b Ha Hb. apply P; simpl; auto.
        -- intros a Ha. apply OK. simpl; auto.
Qed.

Lemma set_value_keys : forall V (m : list (val * V)) i v, map fst (set_value m i v) = map fst m.
Proof. induction m as [|[k x] m IH]; destruct i; simpl; intros; auto. now rewrite IH. Qed.

Lemma set_value_nth : forall V (m : list (val * V)) i v k x,
    nth_error m i = Some (k, x) -> nth_error (set_value m i v) i = Some (k, v).
Proof.
  induction m as [|[k0 x0] m IH]; destruct i; simpl; intros; try discriminate.
  - inversion H; subst. reflexivity.
  - eapply IH; eauto.
Qed.

Lemma nodup_snoc : forall {A} (l : list A) k, NoDup l -> ~ In k l -> NoDup (l ++ [k]).
Proof.
  induction l; simpl; intros k ND Nin.
  - constructor; [intros []|constructor].
  - inversion ND; subst. constructor.
    + intro Hin. apply in_app_iff in Hin. destruct Hin as [Hin|[Hin|[]]]; [contradiction|]. subst. apply Nin. now left.
    + apply IHl; auto.
Qed.

Section KeyIdentity.
  Context {V : Type}.
  Variable U : val -> Prop.
  Hypothesis U_ok : forall k, U k -> key_ok k.

  Lemma U_kmatch : forall a b, U a -> U b -> kmatch a b = key_eq a b.
  Proof. intros. apply kmatch_key_eq. Qed.

  Lemma get_index_of_U : forall (m : list (val * V)) q, (forall x, In x (map fst m) -> U x) -> U q ->
      get_index_of m q = find_from (kmatch q) m 0.
  Proof.
    intros m q Hm Hq. unfold get_index_of. destruct m as [|[k v] [|e r]]; auto.
    change (find_from (kmatch q) [(k, v)] 0) with (if kmatch q k then Some 0%nat else @None nat).
    rewrite (U_kmatch q k Hq (Hm k (or_introl eq_refl))). reflexivity.
  Qed.

  (* inserting keeps the keys pairwise different *)
  Lemma insert_distinct : forall (m : list (val * V)) k v,
      (forall x, In x (map fst m) -> U x) -> U k -> Distinct (map fst m) ->
      Distinct (map fst (map_insert m k v)).
  Proof.
    intros m k v Hm Hk [ND P]. unfold map_insert, insert_full, find_hashed.
    destruct (find_from (key_match k) m 0) as [i|] eqn:F; simpl.
    - rewrite set_value_keys. split; auto.
    - assert (NM : forall x, In x (map fst m) -> kmatch k x = false) by (exact (find_from_none _ _ _ _ F)).
      rewrite map_app. simpl.
      assert (KK : kmatch k k = true) by (destruct (U_ok k Hk); now apply kmatch_refl).
      assert (Nin : ~ In k (map fst m)) by (intro Hin; rewrite (NM k Hin) in KK; discriminate).
      split.
      + apply nodup_snoc; auto.
      + intros x y Hx Hy E. apply in_app_iff in Hx. apply in_app_iff in Hy.
        destruct Hx as [Hx|[<-|[]]]; destruct Hy as [Hy|[<-|[]]]; auto.
        * rewrite kmatch_sym in E. rewrite (NM x Hx) in E. discriminate.
        * rewrite (NM y Hy) in E. discriminate.
  Qed.

  (* the entry addressed by k' after inserting k is the entry of k exactly when k == k' *)
  Theorem key_identity : forall (m : list (val * V)) k k' v,
      (forall x, In x (map fst m) -> U x) -> U k -> U k' -> Distinct (map fst m) ->
      get_index_of (snd (insert_full m k v)) k' = Some (fst (fst (insert_full m k v))) <-> key_eq k k' = true.
  Proof.
    intros m k k' v Hm Hk Hk' DD.
    pose proof (insert_distinct m k v Hm Hk DD) as DD'.
    assert (Hm' : forall x, In x (map fst (map_insert m k v)) -> U x).
    { unfold map_insert, insert_full, find_hashed. destruct (find_from (key_match k) m 0); simpl.
      - rewrite set_value_keys. auto.
      - rewrite map_app. intros x Hx. apply in_app_iff in Hx. destruct Hx as [|[<-|[]]]; auto. }
    assert (OK' : forall x, In x (map fst (map_insert m k v)) -> key_ok x) by (intros; apply U_ok; auto).
    rewrite get_index_of_U; auto.
    unfold map_insert, insert_full, find_hashed in *.
    destruct (find_from (key_match k) m 0) as [i|] eqn:F; simpl in *.
    - destruct (find_from_sound _ _ _ _ F) as (ki & xi & Hn & Mi).
      pose proof (set_value_nth _ m i v ki xi Hn) as Hn'.
      assert (Uki : U ki). { apply Hm. apply in_map_iff. exists (ki, xi). split; auto. eapply nth_error_In; eauto. }
      destruct (U_ok k Hk), (U_ok k' Hk'), (U_ok ki Uki).
      split.
      + intros G. destruct (find_from_sound _ _ _ _ G) as (kj & xj & Hn2 & Mj). rewrite Hn' in Hn2. inversion Hn2; subst.
        rewrite <- (U_kmatch k k') by auto. apply (kmatch_trans k kj k'); auto. now rewrite kmatch_sym.
      + intros E. rewrite <- (U_kmatch k k') in E by auto.
        apply (find_unique_idx _ _ k' i ki v); auto.
        apply (kmatch_trans k' k ki); auto. now rewrite kmatch_sym.
    - destruct (U_ok k Hk), (U_ok k' Hk').
      assert (Hn' : nth_error (m ++ [(k, v)]) (length m) = Some (k, v)).
      { rewrite nth_error_app2 by lia. rewrite Nat.sub_diag. reflexivity. }
      split.
      + intros G. destruct (find_from_sound _ _ _ _ G) as (kj & xj & Hn2 & Mj). rewrite Hn' in Hn2. inversion Hn2; subst.
        rewrite <- (U_kmatch kj k') by auto. now rewrite kmatch_sym.
      + intros E. rewrite <- (U_kmatch k k') in E by auto.
        apply (find_unique_idx _ _ k' (length m) k v); auto. now rewrite kmatch_sym.
  Qed.
End KeyIdentity.

(* since the fix of C14a this covers keys of different representations: after `m.insert 1, v`, `1.0` addresses
   the new entry in a map of any size *)
Definition w_map : list (val * val) := [(VStr [97], VNull)].
Definition w_map4 : list (val * val) := [(VStr [97], VNull); (VStr [98], VNull); (VNum (I 2), VNull); (VNull, VNull)].
Definition w_k : val := VNum (I 1).
Definition w_k' : val := VNum (F (b64_of_bits 4607182418800017408)).

Example key_identity_mixed :
    key_ok w_k /\ key_ok w_k' /\ key_eq w_k w_k' = true /\ hstream w_k = hstream w_k' /\
    get_index_of (snd (insert_full (@nil (val * val)) w_k VNull)) w_k' = Some 0%nat /\
    get_index_of (snd (insert_full w_map w_k VNull)) w_k' = Some 1%nat /\
    get_index_of (snd (insert_full w_map4 w_k VNull)) w_k' = Some 4%nat /\
    (* inserting the other representation updates the entry in place *)
    fst (fst (insert_full (snd (insert_full w_map4 w_k VNull)) w_k' VNull)) = 4%nat.
Proof.
  split. { split; vm_compute; reflexivity. }
  split. { split; vm_compute; reflexivity. }
  split. { vm_compute; reflexivity. }
  split. { vm_compute; reflexivity. }
  split. { vm_compute; reflexivity. }
  split. { vm_compute; reflexivity. }
  split; vm_compute; reflexivity.
Qed.

(* {1: 1, 2: 2} == {1.0: 1, 2: 2}, and 0.0 / -0.0 / 0 are one key *)
Example veq_maps_mixed_keys :
    veq (VMap [(VNum (I 1), VNum (I 1)); (VNum (I 2), VNum (I 2))])
        (VMap [(w_k', VNum (I 1)); (VNum (I 2), VNum (I 2))]) = true /\
    hstream (VNum (I 0)) = hstream (VNum (F (b64_of_bits 9223372036854775808))) /\
    hstream (VNum (I 0)) = hstream (VNum (F (b64_of_bits 0))).
Proof. split; [|split]; vm_compute; reflexivity. Qed.
