(* C14 — value model, part 2: the heap of shared containers and operation histories.

   KList = PtrMut<ValueVec>, KMap = PtrMut<ValueMap>: a list/map VALUE is a handle (location);
   cloning a KValue (assignment, argument passing, capture, storing into a container) copies the
   handle.  Tuples, strings, ranges, numbers are immutable values.

     crates/runtime/src/core_lib/koto.rs   copy (fresh top level, same children), deep_copy
     crates/runtime/src/types/value.rs     KValue::deep_copy (children first, then the container)
     crates/runtime/src/core_lib/list.rs   push / insert / remove / pop / extend / sort
     crates/runtime/src/core_lib/map.rs    insert / remove / extend / sort / get
     crates/runtime/src/vm.rs              run_index / run_index_assign / run_add / run_equal
     crates/runtime/src/types/range.rs     KRange::indices (clamping)                      *)
From Coq Require Import ZArith List Bool Lia.
From KV.val Require Import ValModel.
Import ListNotations.
Open Scope Z_scope.

Definition loc := nat.

Inductive hval :=
| HNull
| HBool (b : bool)
| HNum (n : num)
| HStr (s : bytes)
| HRange (lo : option Z) (hi : option (Z * bool))
| HTuple (l : list hval)
| HList (l : loc)
| HMap (l : loc).

(* map keys are hashable, hence free of handles: they are stored as tree values *)
Inductive obj :=
| OList (l : list hval)
| OMap (m : list (val * hval)).

Definition heap := list obj.

Record state := mkState { st_heap : heap; st_env : list hval }.

(* a handle-free value as a heap value (None for lists/maps: literals of those allocate) *)
Fixpoint inject (v : val) : option hval :=
  match v with
  | VNull => Some HNull
  | VBool b => Some (HBool b)
  | VNum n => Some (HNum n)
  | VStr s => Some (HStr s)
  | VRange lo hi => Some (HRange lo hi)
  | VTuple l =>
      option_map HTuple
        ((fix go (l : list val) : option (list hval) :=
            match l with
            | [] => Some []
            | x :: r => match inject x, go r with Some a, Some b => Some (a :: b) | _, _ => None end
            end) l)
  | VList _ | VMap _ => None
  end.

(* ValueKey::try_from: the key as a tree value, None when not hashable *)
Fixpoint as_key (v : hval) : option val :=
  match v with
  | HNull => Some VNull
  | HBool b => Some (VBool b)
  | HNum n => Some (VNum n)
  | HStr s => Some (VStr s)
  | HRange lo hi => Some (VRange lo hi)
  | HTuple l =>
      option_map VTuple
        ((fix go (l : list hval) : option (list val) :=
            match l with
            | [] => Some []
            | x :: r => match as_key x, go r with Some a, Some b => Some (a :: b) | _, _ => None end
            end) l)
  | HList _ | HMap _ => None
  end.

(* what a name shows: the tree reachable from a value (None: out of fuel / dangling handle) *)
Fixpoint resolve (fuel : nat) (h : heap) (v : hval) : option val :=
  match fuel with
  | O => None
  | S f =>
      let all := fix all (l : list hval) : option (list val) :=
        match l with
        | [] => Some []
        | x :: r => match resolve f h x, all r with Some a, Some b => Some (a :: b) | _, _ => None end
        end in
      match v with
      | HNull => Some VNull
      | HBool b => Some (VBool b)
      | HNum n => Some (VNum n)
      | HStr s => Some (VStr s)
      | HRange lo hi => Some (VRange lo hi)
      | HTuple l => option_map VTuple (all l)
      | HList l =>
          match nth_error h l with
          | Some (OList xs) => option_map VList (all xs)
          | _ => None
          end
      | HMap l =>
          match nth_error h l with
          | Some (OMap m) =>
              option_map VMap
                ((fix allm (m : list (val * hval)) : option (list (val * val)) :=
                    match m with
                    | [] => Some []
                    | (k, x) :: r => match resolve f h x, allm r with Some a, Some b => Some ((k, a) :: b) | _, _ => None end
                    end) m)
          | _ => None
          end
      end
  end.

(* ------------------------------------------------------------------ copy / deep_copy *)

Definition alloc (h : heap) (o : obj) : heap * loc := (h ++ [o], length h).

(* koto.copy: a new container with clones of the elements (handles are shared) *)
Definition copy_val (h : heap) (v : hval) : option (heap * hval) :=
  match v with
  | HList l => match nth_error h l with
               | Some (OList xs) => let (h', l') := alloc h (OList xs) in Some (h', HList l')
               | _ => None
               end
  | HMap l => match nth_error h l with
              | Some (OMap m) => let (h', l') := alloc h (OMap m) in Some (h', HMap l')
              | _ => None
              end
  | other => Some (h, other)
  end.

(* KValue::deep_copy: elements first (left to right), then the new container; tuples are rebuilt;
   everything else is cloned.  `rec` is the recursive call (fuel construction below). *)
Section DeepCopy.
  Variable rec : heap -> hval -> option (heap * hval).

  Fixpoint dc_list (h : heap) (l : list hval) : option (heap * list hval) :=
    match l with
    | [] => Some (h, [])
    | x :: r =>
        match rec h x with
        | Some (h1, x') =>
            match dc_list h1 r with
            | Some (h2, r') => Some (h2, x' :: r')
            | None => None
            end
        | None => None
        end
    end.

  Fixpoint dc_entries (h : heap) (m : list (val * hval)) : option (heap * list (val * hval)) :=
    match m with
    | [] => Some (h, [])
    | (k, x) :: r =>
        match rec h x with
        | Some (h1, x') =>
            match dc_entries h1 r with
            | Some (h2, r') => Some (h2, (k, x') :: r')
            | None => None
            end
        | None => None
        end
    end.

  Definition dc_body (h : heap) (v : hval) : option (heap * hval) :=
    match v with
    | HList l =>
        match nth_error h l with
        | Some (OList xs) =>
            match dc_list h xs with
            | Some (h1, xs') => let (h2, l') := alloc h1 (OList xs') in Some (h2, HList l')
            | None => None
            end
        | _ => None
        end
    | HTuple xs =>
        match dc_list h xs with
        | Some (h1, xs') => Some (h1, HTuple xs')
        | None => None
        end
    | HMap l =>
        match nth_error h l with
        | Some (OMap m) =>
            match dc_entries h m with
            | Some (h1, m') => let (h2, l') := alloc h1 (OMap m') in Some (h2, HMap l')
            | None => None
            end
        | _ => None
        end
    | other => Some (h, other)
    end.
End DeepCopy.

(* None: out of fuel (the Rust recursion does not terminate on cyclic data) *)
Fixpoint deep_copy (fuel : nat) (h : heap) (v : hval) : option (heap * hval) :=
  match fuel with
  | O => None
  | S f => dc_body (deep_copy f) h v
  end.

(* ------------------------------------------------------------------ operations *)

Inductive atom := AVar (x : nat) | ALit (v : val).

Inductive op :=
(* binding operations: the result becomes the next name *)
| ONewList (es : list atom)          (* v = [e, ..] *)
| ONewTuple (es : list atom)         (* v = (e, ..) *)
| ONewMap                            (* v = {} *)
| OAlias (x : nat)                   (* v = x *)
| OCopy (x : nat)                    (* v = koto.copy x *)
| ODeepCopy (x : nat)                (* v = koto.deep_copy x *)
| OIndex (x : nat) (i : Z)           (* v = x[i] *)
| OSlice (x : nat) (lo hi : Z)       (* v = x[lo..hi] *)
| OConcat (x y : nat)                (* v = x + y *)
| OPop (x : nat)                     (* v = x.pop() *)
| ORemoveAt (x : nat) (i : Z)        (* v = x.remove i      (list) *)
| OMapInsert (x : nat) (k e : atom)  (* v = x.insert k, e   (old value or null) *)
| OMapRemove (x : nat) (k : atom)    (* v = x.remove k *)
| OMapGet (x : nat) (k : atom)       (* v = x.get k *)
| OEq (x y : nat)                    (* v = x == y *)
(* pure mutations *)
| OPush (x : nat) (e : atom)         (* x.push e *)
| OInsertAt (x : nat) (i : Z) (e : atom)  (* x.insert i, e  (list) *)
| OSetIdx (x : nat) (i : Z) (e : atom)    (* x[i] = e       (list) *)
| OListExtend (x y : nat)            (* x.extend y *)
| OSort (x : nat)                    (* x.sort() *)
| OMapExtend (x y : nat)             (* x.extend y *)
| OMapIdxAssign (x : nat) (i : Z) (k e : atom)  (* x[i] = (k, e) *).

(* SUnsup: a receiver/argument combination that means a DIFFERENT operation in koto (e.g. `insert` on a
   list) and is not modelled here; the check never compares past it *)
Inductive status := SOk | SErr | SPanic | SDiverge | SUnsup.

Definition binds (o : op) : bool :=
  match o with
  | OPush _ _ | OInsertAt _ _ _ | OSetIdx _ _ _ | OListExtend _ _ | OSort _ | OMapExtend _ _
  | OMapIdxAssign _ _ _ _ => false
  | _ => true
  end.

Definition eval_atom (env : list hval) (a : atom) : option hval :=
  match a with
  | AVar x => nth_error env x
  | ALit v => inject v
  end.

Fixpoint eval_atoms (env : list hval) (l : list atom) : option (list hval) :=
  match l with
  | [] => Some []
  | a :: r => match eval_atom env a, eval_atoms env r with Some x, Some y => Some (x :: y) | _, _ => None end
  end.

Fixpoint set_nth {A} (l : list A) (i : nat) (x : A) : list A :=
  match l, i with
  | [], _ => []
  | _ :: r, O => x :: r
  | y :: r, S j => y :: set_nth r j x
  end.

Fixpoint remove_at {A} (l : list A) (i : nat) : list A :=
  match l, i with
  | [], _ => []
  | _ :: r, O => r
  | y :: r, S j => y :: remove_at r j
  end.

Fixpoint insert_at {A} (l : list A) (i : nat) (x : A) : list A :=
  match i, l with
  | O, _ => x :: l
  | S j, y :: r => y :: insert_at r j x
  | S _, [] => [x]
  end.

Definition set_obj (h : heap) (l : loc) (o : obj) : heap := set_nth h l o.

(* KRange::indices for lo..hi (exclusive): clamp start to [0, len], end to [start, len] *)
Definition clampZ (x lo hi : Z) : Z := if x <? lo then lo else if hi <? x then hi else x.
Definition slice_bounds (lo hi : Z) (len : nat) : nat * nat :=
  let n := Z.of_nat len in
  let e0 := Z.max hi lo in
  let s := clampZ lo 0 n in
  let e := clampZ e0 s n in
  (Z.to_nat s, Z.to_nat e).

Definition slice {A} (l : list A) (lo hi : Z) : list A :=
  let '(s, e) := slice_bounds lo hi (length l) in
  firstn (e - s) (skipn s l).

(* index validation for an integer index: 0 <= i < len *)
Definition valid_index (i : Z) (len : nat) : option nat :=
  if (0 <=? i) && (i <? Z.of_nat len) then Some (Z.to_nat i) else None.

(* depth budget for walking a value: handles on an acyclic path are distinct (at most length h), tuples
   nest a little further *)
Definition fuel_of (h : heap) : nat := (64 + 2 * length h)%nat.

(* result of one operation: new heap, the value bound (for binding operations), status *)
Record step_result := mkStep { sr_heap : heap; sr_val : hval; sr_status : status }.

Definition ok (h : heap) (v : hval) := mkStep h v SOk.
Definition err (h : heap) := mkStep h HNull SErr.
Definition panic (h : heap) := mkStep h HNull SPanic.
Definition unsup (h : heap) := mkStep h HNull SUnsup.
Definition is_container (v : hval) : bool := match v with HList _ | HTuple _ | HMap _ => true | _ => false end.

Definition get_list (h : heap) (v : hval) : option (loc * list hval) :=
  match v with
  | HList l => match nth_error h l with Some (OList xs) => Some (l, xs) | _ => None end
  | _ => None
  end.

Definition get_map (h : heap) (v : hval) : option (loc * list (val * hval)) :=
  match v with
  | HMap l => match nth_error h l with Some (OMap m) => Some (l, m) | _ => None end
  | _ => None
  end.

Definition opt_or_null (o : option hval) : hval := match o with Some v => v | None => HNull end.

Section Step.
  (* the sorting routines (slice::sort_by, IndexMap::sort_by) are parameters *)
  Variable sort_vals : (val -> val -> comparison) -> list val -> list val.
  Variable sort_entries : (val * hval -> val * hval -> comparison) -> list (val * hval) -> list (val * hval).

  Definition do_op (h : heap) (env : list hval) (o : op) : step_result :=
    let var x := nth_error env x in
    match o with
    | ONewList es =>
        match eval_atoms env es with
        | Some xs => let (h', l) := alloc h (OList xs) in ok h' (HList l)
        | None => err h
        end
    | ONewTuple es =>
        match eval_atoms env es with
        | Some xs => ok h (HTuple xs)
        | None => err h
        end
    | ONewMap => let (h', l) := alloc h (OMap []) in ok h' (HMap l)
    | OAlias x => match var x with Some v => ok h v | None => err h end
    | OCopy x =>
        match var x with
        | Some v => match copy_val h v with Some (h', v') => ok h' v' | None => err h end
        | None => err h
        end
    | ODeepCopy x =>
        match var x with
        | Some v => match deep_copy (fuel_of h) h v with
                    | Some (h', v') => ok h' v'
                    | None => mkStep h HNull SDiverge
                    end
        | None => err h
        end
    | OIndex x i =>
        match var x with
        | Some (HList l) =>
            match get_list h (HList l) with
            | Some (_, xs) => match valid_index i (length xs) with
                              | Some n => ok h (opt_or_null (nth_error xs n))
                              | None => err h
                              end
            | None => err h
            end
        | Some (HTuple xs) =>
            match valid_index i (length xs) with
            | Some n => ok h (opt_or_null (nth_error xs n))
            | None => err h
            end
        | Some (HMap l) =>
            match get_map h (HMap l) with
            | Some (_, m) => match valid_index i (length m) with
                             | Some n => match nth_error m n with
                                         | Some (k, v) => ok h (HTuple [opt_or_null (inject k); v])
                                         | None => err h
                                         end
                             | None => err h
                             end
            | None => err h
            end
        | Some (HStr _) | Some (HRange _ _) => unsup h
        | _ => err h
        end
    | OSlice x lo hi =>
        match var x with
        | Some (HList l) =>
            match get_list h (HList l) with
            | Some (_, xs) => let (h', l') := alloc h (OList (slice xs lo hi)) in ok h' (HList l')
            | None => err h
            end
        | Some (HTuple xs) => ok h (HTuple (slice xs lo hi))
        | Some (HStr _) => unsup h
        | _ => err h
        end
    | OConcat x y =>
        match var x, var y with
        | Some (HList a), Some (HList b) =>
            match get_list h (HList a), get_list h (HList b) with
            | Some (_, xs), Some (_, ys) => let (h', l') := alloc h (OList (xs ++ ys)) in ok h' (HList l')
            | _, _ => err h
            end
        | Some (HTuple xs), Some (HTuple ys) => ok h (HTuple (xs ++ ys))
        | Some (HMap a), Some (HMap b) =>
            match get_map h (HMap a), get_map h (HMap b) with
            | Some (_, ma), Some (_, mb) => let (h', l') := alloc h (OMap (map_extend ma mb)) in ok h' (HMap l')
            | _, _ => err h
            end
        | Some a, Some b => if is_container a || is_container b then err h else unsup h
        | _, _ => err h
        end
    | OPop x =>
        match var x with
        | Some v =>
            match get_list h v with
            | Some (l, xs) =>
                match xs with
                | [] => ok h HNull
                | _ => ok (set_obj h l (OList (removelast xs))) (last xs HNull)
                end
            | None => err h
            end
        | None => err h
        end
    | ORemoveAt x i =>
        match var x with
        | Some (HMap _) => unsup h
        | Some v =>
            match get_list h v with
            | Some (l, xs) =>
                match valid_index i (length xs) with
                | Some n => ok (set_obj h l (OList (remove_at xs n))) (opt_or_null (nth_error xs n))
                | None => err h
                end
            | None => err h
            end
        | None => err h
        end
    | OMapInsert x k e =>
        match var x, eval_atom env k, eval_atom env e with
        | Some (HList _), _, _ => unsup h
        | Some v, Some kv, Some ev =>
            match get_map h v, as_key kv with
            | Some (l, m), Some key =>
                let '(_, old, m') := insert_full m key ev in
                ok (set_obj h l (OMap m')) (opt_or_null old)
            | _, _ => err h
            end
        | _, _, _ => err h
        end
    | OMapRemove x k =>
        match var x, eval_atom env k with
        | Some (HList _), _ => unsup h
        | Some v, Some kv =>
            match get_map h v, as_key kv with
            | Some (l, m), Some key =>
                let (old, m') := shift_remove m key in
                ok (set_obj h l (OMap m')) (opt_or_null old)
            | _, _ => err h
            end
        | _, _ => err h
        end
    | OMapGet x k =>
        match var x, eval_atom env k with
        | Some (HMap l), Some kv =>
            match get_map h (HMap l), as_key kv with
            | Some (_, m), Some key => ok h (opt_or_null (map_get m key))
            | _, _ => err h
            end
        | Some _, Some _ => unsup h
        | _, _ => err h
        end
    | OEq x y =>
        match var x, var y with
        | Some a, Some b =>
            match resolve (fuel_of h) h a, resolve (fuel_of h) h b with
            | Some ta, Some tb => ok h (HBool (veq ta tb))
            | _, _ => mkStep h HNull SDiverge
            end
        | _, _ => err h
        end
    | OPush x e =>
        match var x, eval_atom env e with
        | Some v, Some ev =>
            match get_list h v with
            | Some (l, xs) => ok (set_obj h l (OList (xs ++ [ev]))) HNull
            | None => err h
            end
        | _, _ => err h
        end
    | OInsertAt x i e =>
        match var x, eval_atom env e with
        | Some (HMap _), _ => unsup h
        | Some v, Some ev =>
            match get_list h v with
            | Some (l, xs) =>
                if (0 <=? i) && (i <=? Z.of_nat (length xs))
                then ok (set_obj h l (OList (insert_at xs (Z.to_nat i) ev))) HNull
                else err h
            | None => err h
            end
        | _, _ => err h
        end
    | OSetIdx x i e =>
        match var x, eval_atom env e with
        | Some (HMap _), _ => unsup h
        | Some v, Some ev =>
            match get_list h v with
            | Some (l, xs) =>
                match valid_index i (length xs) with
                | Some n => ok (set_obj h l (OList (set_nth xs n ev))) HNull
                | None => err h
                end
            | None => err h
            end
        | _, _ => err h
        end
    | OListExtend x y =>
        match var x, var y with
        | Some v, Some w =>
            match get_list h v with
            | Some (l, xs) =>
                match w with
                | HList l2 =>
                    (* l.data_mut() is held while other.data() is borrowed *)
                    if Nat.eqb l l2 then panic h
                    else match get_list h w with
                         | Some (_, ys) => ok (set_obj h l (OList (xs ++ ys))) HNull
                         | None => err h
                         end
                | HTuple ys => ok (set_obj h l (OList (xs ++ ys))) HNull
                | HMap _ | HStr _ | HRange _ _ => unsup h  (* other iterables: outside the model *)
                | _ => err h
                end
            | None => match v with HMap _ => unsup h | _ => err h end
            end
        | _, _ => err h
        end
    | OSort x =>
        match var x with
        | Some (HList l) =>
            match get_list h (HList l) with
            | Some (_, [])  => ok h HNull
            | Some (_, [_]) => ok h HNull
            | Some (_, xs) =>
                (* sort_values: elements compared with `<` / `>`; containers are never comparable *)
                match (fix keys (xs : list hval) : option (list val) :=
                         match xs with
                         | [] => Some []
                         | a :: r => match as_key a, keys r with Some u, Some w => Some (u :: w) | _, _ => None end
                         end) xs with
                | Some ks =>
                    match sort_values sort_vals ks with
                    | Some sorted => ok (set_obj h l (OList (map (fun k => opt_or_null (inject k)) sorted))) HNull
                    | None => err h
                    end
                | None => err h
                end
            | None => err h
            end
        | Some (HMap l) =>
            match get_map h (HMap l) with
            | Some (_, m) => ok (set_obj h l (OMap (map_sort sort_entries m))) HNull
            | None => err h
            end
        | _ => err h
        end
    | OMapExtend x y =>
        match var x, var y with
        | Some v, Some w =>
            match get_map h v, get_map h w with
            | Some (l, m), Some (l2, m2) =>
                if Nat.eqb l l2 then panic h
                else ok (set_obj h l (OMap (map_extend m m2))) HNull
            | Some _, None => unsup h
            | None, _ => match v with HList _ => unsup h | _ => err h end
            end
        | _, _ => err h
        end
    | OMapIdxAssign x i k e =>
        match var x, eval_atom env k, eval_atom env e with
        | Some (HList _), _, _ => unsup h
        | Some v, Some kv, Some ev =>
            match get_map h v with
            | Some (l, m) =>
                match valid_index i (length m) with
                | Some n =>
                    match as_key kv with
                    | Some key =>
                        match index_assign m n key ev with
                        | Done m' => ok (set_obj h l (OMap m')) HNull
                        | Fail => err h
                        | Panic => panic h
                        end
                    | None => err h
                    end
                | None => err h
                end
            | None => err h
            end
        | _, _, _ => err h
        end
    end.

  Definition step (s : state) (o : op) : state * status :=
    let r := do_op (st_heap s) (st_env s) o in
    let env' := if binds o then st_env s ++ [sr_val r] else st_env s in
    (mkState (sr_heap r) env', sr_status r).

  (* run a history; after every step record the status and what every live name shows.
     A panic or divergence ends the history. *)
  Fixpoint run (s : state) (ops : list op) : list (status * list (option val)) :=
    match ops with
    | [] => []
    | o :: r =>
        let (s', st) := step s o in
        let row := (st, map (resolve (fuel_of (st_heap s')) (st_heap s')) (st_env s')) in
        match st with
        | SPanic | SDiverge | SUnsup => [row]
        | _ => row :: run s' r
        end
    end.
End Step.

Definition empty_state : state := mkState [] [].
