(* Encoders used by the correspondence check (checks/c14.py): everything is reduced to nested
   lists of Z.  The sorting routines are instantiated with a stable insertion sort. *)
From Coq Require Import ZArith List Bool Lia.
From Flocq Require Import IEEE754.Binary IEEE754.Bits.
From KV.val Require Import ValModel HeapModel.
Import ListNotations.
Open Scope Z_scope.

Definition fl (bits : Z) : num := F (b64_of_bits bits).

Definition b2z (b : bool) : Z := if b then 1 else 0.
Definition ob2z (o : option bool) : Z := match o with Some true => 1 | Some false => 0 | None => 2 end.
Definition c2z (c : comparison) : Z := match c with Lt => 0 | Eq => 1 | Gt => 2 end.
Definition on2z (o : option nat) : Z := match o with Some n => Z.of_nat n | None => -1 end.

(* flat prefix code of a value; floats by their bits, NaN as -1 *)
Fixpoint enc (v : val) : list Z :=
  match v with
  | VNull => [0]
  | VBool b => [1; b2z b]
  | VNum (I z) => [2; z]
  | VNum (F x) => [3; if f_is_nan x then -1 else fbits x]
  | VStr s => 4 :: Z.of_nat (length s) :: s
  | VRange lo hi =>
      5 :: (match lo with Some s => [1; s] | None => [0; 0] end)
        ++ (match hi with Some (e, i) => [1; e; b2z i] | None => [0; 0; 0] end)
  | VList l => 6 :: Z.of_nat (length l) :: (fix cat (l : list val) := match l with [] => [] | x :: r => enc x ++ cat r end) l
  | VTuple l => 7 :: Z.of_nat (length l) :: (fix cat (l : list val) := match l with [] => [] | x :: r => enc x ++ cat r end) l
  | VMap m => 8 :: Z.of_nat (length m) ::
      (fix cat (m : list (val * val)) := match m with [] => [] | (k, x) :: r => enc k ++ enc x ++ cat r end) m
  end.

Definition enc_opt (o : option val) : list Z := match o with Some v => enc v | None => [-1] end.

(* a map value built the way the harness builds it: successive inserts *)
Definition mk_map (kvs : list (val * val)) : val :=
  VMap (fold_left (fun acc e => map_insert acc (fst e) (snd e)) kvs []).

Definition matrix {A} (f : val -> val -> A) (pool : list val) : list (list A) :=
  map (fun a => map (fun b => f a b) pool) pool.

Definition both_hashable (a b : val) := hashable a && hashable b.

(* a key_eq pair whose hasher inputs differ: IndexMap's contract is broken for it (class C14a) *)
Definition hash_conflict (a b : val) : bool :=
  both_hashable a b && key_eq a b && negb (hstream_eqb (hstream a) (hstream b)).

Definition seven : val := VNum (I 7).
Definition eight : val := VNum (I 8).
Definition nine : val := VNum (I 9).

Definition one_entry (k : val) : list (val * val) := [(k, seven)].
Definition with_fill (fill : list val) (k : val) : list (val * val) :=
  fold_left (fun acc f => map_insert acc f eight) fill [(k, seven)].

Definition ins_row (m : list (val * val)) (k : val) : list Z :=
  let '(i, old, m') := insert_full m k nine in
  [Z.of_nat i; b2z (match old with Some _ => true | None => false end); Z.of_nat (length m')].

Definition rem_row (m : list (val * val)) (k : val) : list Z :=
  let (old, m') := shift_remove m k in
  [b2z (match old with Some _ => true | None => false end); Z.of_nat (length m')].

Definition guard (a b : val) (x : list Z) : list Z := if both_hashable a b then x else [].

(* all the pairwise tables of a pool, in the order the check expects *)
Definition laws_out (pool fill : list val) :=
  ( matrix (fun a b => b2z (veq a b)) pool,
    matrix (fun a b => b2z (vne a b)) pool,
    matrix (fun a b => ob2z (vlt a b)) pool,
    matrix (fun a b => ob2z (vle a b)) pool,
    matrix (fun a b => ob2z (vgt a b)) pool,
    matrix (fun a b => ob2z (vge a b)) pool,
    map (fun a => b2z (hashable a)) pool,
    matrix (fun a b => guard a b [b2z (key_eq a b); c2z (key_cmp a b); b2z (hstream_eqb (hstream a) (hstream b));
                                  on2z (get_index_of (one_entry a) b); on2z (get_index_of (with_fill fill a) b);
                                  b2z (hash_conflict a b)]) pool,
    matrix (fun a b => guard a b (ins_row (one_entry a) b ++ ins_row (with_fill fill a) b
                                  ++ rem_row (one_entry a) b ++ rem_row (with_fill fill a) b)) pool ).

Definition pick (pool : list val) (idxs : list nat) : list val := map (fun i => nth i pool VNull) idxs.

Definition sort_out (pool : list val) (idxs : list nat) : list Z :=
  match sort_values isort (pick pool idxs) with
  | Some l => 1 :: enc (VList l)
  | None => [0]
  end.

(* is `cmp` a total preorder on the elements of l?  (reflexive Eq, antisymmetric signs, transitive) *)
Definition le_of {A} (cmp : A -> A -> comparison) (a b : A) : bool := match cmp a b with Gt => false | _ => true end.
Definition consistent_on {A} (cmp : A -> A -> comparison) (l : list A) : bool :=
  forallb (fun a => forallb (fun b =>
     (match cmp a b, cmp b a with Lt, Gt | Gt, Lt | Eq, Eq => true | _, _ => false end) &&
     forallb (fun c => implb (le_of cmp a b && le_of cmp b c) (le_of cmp a c)) l) l) l.

Definition ksort_out (pool : list val) (idxs : list nat) : list Z :=
  let m := fold_left (fun acc e => map_insert acc (fst e) (snd e))
                     (combine (pick pool idxs) (map (fun n => VNum (I (Z.of_nat n))) (seq 0 (length idxs)))) [] in
  b2z (consistent_on key_cmp (map fst m)) :: enc (VMap (map_sort isort m)).

(* histories *)
Definition st2z (s : status) : Z :=
  match s with SOk => 0 | SErr => 1 | SPanic => 2 | SDiverge => 3 | SUnsup => 4 end.

Definition run_hist (ops : list op) : list (Z * list (list Z)) :=
  map (fun row => (st2z (fst row), map enc_opt (snd row))) (run isort isort empty_state ops).

(* the same, printing only what changed since the previous step (the check rebuilds the full rows):
   (status, number of live names, [(name index, encoding)]) *)
Fixpoint zlist_eqb (a b : list Z) : bool :=
  match a, b with
  | [], [] => true
  | x :: a', y :: b' => (x =? y) && zlist_eqb a' b'
  | _, _ => false
  end.

Fixpoint diff_rows (prev cur : list (list Z)) (i : Z) : list (Z * list Z) :=
  match cur with
  | [] => []
  | c :: cr =>
      match prev with
      | p :: pr => if zlist_eqb p c then diff_rows pr cr (i + 1) else (i, c) :: diff_rows pr cr (i + 1)
      | [] => (i, c) :: diff_rows [] cr (i + 1)
      end
  end.

Fixpoint diffs (prev : list (list Z)) (rows : list (Z * list (list Z))) : list (Z * (Z * list (Z * list Z))) :=
  match rows with
  | [] => []
  | (st, obs) :: r => (st, (Z.of_nat (length obs), diff_rows prev obs 0)) :: diffs obs r
  end.

Definition run_hist_d (ops : list op) := diffs [] (run_hist ops).
