(* C14 — proofs about the order-preserving map and about sorting.

   A. map order: the impl-shaped operations of ValModel (insert_full through the hash table,
      shift_remove with IndexMap's single-entry fast path, extend, sort, and the
      swap_remove_index / insert / swap_indices sequence of run_index_assign) refine the
      key-sequence specification of ValSpec for ALL histories, on any universe of keys on which
      the hash respects equality.  index_assign PANICS exactly when the new key equals the key of
      another entry (known finding C14b).
   B. sorting: sort_values returns a sorted permutation on homogeneous data; compare_values is
      not a total preorder on mixed int/float data (refuted with a witness). *)
From Coq Require Import ZArith List Bool Lia Arith Sorting.Permutation Sorting.Sorted.
From Flocq Require Import IEEE754.Binary IEEE754.Bits.
From KV.val Require Import ValModel HeapModel ValSpec NumProofs.
Import ListNotations.

(* ------------------------------------------------------------------ list helpers *)

Section ListHelpers.
  Context {A : Type}.

  Lemma firstn_len_app (a r : list A) : firstn (length a) (a ++ r) = a.
  Proof. induction a; simpl; congruence. Qed.

  Lemma skipn_S_len_app (a : list A) x r : skipn (S (length a)) (a ++ x :: r) = r.
  Proof. induction a as [|y a IH]; [reflexivity | exact IH]. Qed.

  Lemma nth_error_len_app (a : list A) x r : nth_error (a ++ x :: r) (length a) = Some x.
  Proof. induction a; simpl; auto. Qed.

  Lemma removelast_snoc (a : list A) x : removelast (a ++ [x]) = a.
  Proof. rewrite removelast_app by discriminate. simpl. apply app_nil_r. Qed.

  Lemma assoc_mid (a : list A) x b e : a ++ x :: b ++ [e] = (a ++ x :: b) ++ [e].
  Proof. rewrite <- app_assoc. reflexivity. Qed.

  Lemma len_mid (a : list A) x b : length (a ++ x :: b) = (length a + S (length b))%nat.
  Proof. rewrite app_length. reflexivity. Qed.

  Lemma nth_error_last2 (a : list A) x b e :
    nth_error (a ++ x :: b ++ [e]) (length (a ++ x :: b)) = Some e.
  Proof. rewrite assoc_mid. apply nth_error_len_app. Qed.

  (* a position inside a list splits it: either it is the last position or there is a last
     element behind it *)
  Lemma split_at (m : list A) i :
    (i < length m)%nat ->
    exists a x, length a = i /\
      (m = a ++ [x] \/ exists b e, m = a ++ x :: b ++ [e]).
  Proof.
    intros Hi.
    destruct (nth_error m i) as [x|] eqn:E; [|apply nth_error_None in E; lia].
    apply nth_error_split in E. destruct E as (a & r & -> & Hl).
    exists a, x. split; [exact Hl|].
    destruct r as [|y r' _] using rev_ind; [left; reflexivity|].
    right. exists r', y. reflexivity.
  Qed.

  Lemma StronglySorted_impl_in (R R' : A -> A -> Prop) (l : list A) :
    StronglySorted R l ->
    (forall a b, In a l -> In b l -> R a b -> R' a b) ->
    StronglySorted R' l.
  Proof.
    induction 1 as [|a l Hs IH Hf]; intros Himp; constructor.
    - apply IH. intros; apply Himp; simpl; auto.
    - rewrite Forall_forall in *. intros b Hb. apply Himp; simpl; auto.
  Qed.
End ListHelpers.

(* ------------------------------------------------------------------ A. map order *)

Section MapLemmas.
  Context {V : Type}.
  Implicit Types (m a b : list (val * V)).

  Lemma find_from_existsb f m i :
    existsb f (map fst m) = match find_from f m i with Some _ => true | None => false end.
  Proof.
    revert i; induction m as [|[k x] r IH]; intros i; simpl; auto.
    destruct (f k); simpl; auto.
  Qed.

  Lemma find_from_ext f g m i :
    (forall k, In k (map fst m) -> f k = g k) -> find_from f m i = find_from g m i.
  Proof.
    revert i; induction m as [|[k x] r IH]; intros i H; simpl; auto.
    rewrite <- (H k) by (simpl; auto). destruct (f k); auto.
    apply IH. intros; apply H; simpl; auto.
  Qed.

  Lemma set_value_keys m i (v : V) : map fst (set_value m i v) = map fst m.
  Proof.
    revert i; induction m as [|[k x] r IH]; intros [|i]; simpl; auto.
    f_equal; apply IH.
  Qed.

  Lemma find_from_remove q m i j :
    find_from (key_eq q) m i = Some j ->
    (i <= j)%nat /\ map fst (remove_nth m (j - i)) = spec_remove (map fst m) q.
  Proof.
    revert i; induction m as [|[k x] r IH]; intros i H; simpl in H; [discriminate|].
    simpl. unfold same. destruct (key_eq q k).
    - inversion H; subst. split; [lia|]. rewrite Nat.sub_diag. reflexivity.
    - apply IH in H. destruct H as [Hle Hr]. split; [lia|].
      replace (j - i)%nat with (S (j - S i)) by lia. simpl. f_equal. exact Hr.
  Qed.

  Lemma find_from_none_remove q m i :
    find_from (key_eq q) m i = None -> spec_remove (map fst m) q = map fst m.
  Proof.
    revert i; induction m as [|[k x] r IH]; intros i H; simpl in *; auto.
    unfold same. destruct (key_eq q k); [discriminate|]. f_equal. eapply IH; eauto.
  Qed.

  (* insert_full, by whether the hash table finds the key *)
  Lemma map_insert_found m k (v : V) :
    existsb (key_match k) (map fst m) = true ->
    length (map_insert m k v) = length m /\ map fst (map_insert m k v) = map fst m.
  Proof.
    unfold map_insert, insert_full, find_hashed.
    rewrite (find_from_existsb (key_match k) m 0).
    destruct (find_from (key_match k) m 0); [|discriminate]. intros _. simpl.
    assert (H : map fst (set_value m n v) = map fst m) by apply set_value_keys.
    split; [|exact H].
    rewrite <- (map_length fst (set_value m n v)), H. apply map_length.
  Qed.

  Lemma map_insert_fresh m k (v : V) :
    existsb (key_match k) (map fst m) = false -> map_insert m k v = m ++ [(k, v)].
  Proof.
    unfold map_insert, insert_full, find_hashed.
    rewrite (find_from_existsb (key_match k) m 0).
    destruct (find_from (key_match k) m 0); [discriminate|]. reflexivity.
  Qed.

  (* --- swap_remove_index / swap_indices on split lists --- *)

  Lemma swap_remove_last a (x : val * V) : swap_remove_index (a ++ [x]) (length a) = a.
  Proof.
    unfold swap_remove_index. rewrite nth_error_len_app.
    rewrite app_length. cbn [length].
    replace (length a + 1 - 1)%nat with (length a) by lia.
    rewrite Nat.eqb_refl. apply removelast_snoc.
  Qed.

  Lemma swap_remove_mid a (x : val * V) b e :
    swap_remove_index (a ++ x :: b ++ [e]) (length a) = a ++ e :: b.
  Proof.
    unfold swap_remove_index. rewrite nth_error_len_app.
    assert (Hn : (length (a ++ x :: b ++ [e]) - 1)%nat = length (a ++ x :: b)).
    { rewrite assoc_mid, app_length. cbn [length]. lia. }
    rewrite Hn, nth_error_last2.
    destruct (Nat.eqb_spec (length a) (length (a ++ x :: b))) as [E|_].
    { rewrite len_mid in E. lia. }
    rewrite firstn_len_app, skipn_S_len_app.
    rewrite (assoc_mid a e b e). apply removelast_snoc.
  Qed.

  Lemma swap_indices_oob m i j : (length m <= j)%nat -> swap_indices m i j = None.
  Proof.
    intros H. unfold swap_indices. apply nth_error_None in H. rewrite H.
    destruct (nth_error m i); reflexivity.
  Qed.

  Lemma swap_indices_same m i : (i < length m)%nat -> swap_indices m i i = Some m.
  Proof.
    intros H. unfold swap_indices.
    destruct (nth_error m i) eqn:E; [|apply nth_error_None in E; lia].
    rewrite Nat.eqb_refl. reflexivity.
  Qed.

  Lemma swap_indices_ends a (e : val * V) b f :
    swap_indices (a ++ e :: b ++ [f]) (length a) (length (a ++ e :: b)) = Some (a ++ f :: b ++ [e]).
  Proof.
    unfold swap_indices. rewrite nth_error_len_app, nth_error_last2.
    destruct (Nat.eqb_spec (length a) (length (a ++ e :: b))) as [E|_].
    { rewrite len_mid in E. lia. }
    rewrite firstn_len_app, skipn_S_len_app.
    replace (length (a ++ e :: b)) with (length (a ++ f :: b)) by (rewrite !len_mid; reflexivity).
    rewrite (assoc_mid a f b f), firstn_len_app, skipn_S_len_app.
    rewrite <- assoc_mid. reflexivity.
  Qed.

  (* --- index_assign on split lists (no assumption on the hash) --- *)

  Lemma index_assign_last a (x : val * V) k v :
    index_assign (a ++ [x]) (length a) k v =
    if existsb (key_match k) (map fst a) then Panic else Done (a ++ [(k, v)]).
  Proof.
    unfold index_assign.
    assert (Hn : length (a ++ [x]) = S (length a)) by (rewrite app_length; cbn [length]; lia).
    rewrite Hn. replace (S (length a) - 1)%nat with (length a) by lia.
    destruct (Nat.ltb_spec (length a) (S (length a))) as [_|?]; [|lia].
    rewrite swap_remove_last.
    destruct (existsb (key_match k) (map fst a)) eqn:E.
    - destruct (map_insert_found a k v E) as [Hl _].
      rewrite swap_indices_oob by lia. reflexivity.
    - rewrite (map_insert_fresh a k v E).
      rewrite swap_indices_same by (rewrite app_length; cbn [length]; lia). reflexivity.
  Qed.

  Lemma index_assign_mid a (x : val * V) b e k v :
    index_assign (a ++ x :: b ++ [e]) (length a) k v =
    if existsb (key_match k) (map fst (a ++ e :: b)) then Panic else Done (a ++ (k, v) :: b ++ [e]).
  Proof.
    unfold index_assign.
    assert (Hn : length (a ++ x :: b ++ [e]) = S (length (a ++ x :: b))).
    { rewrite assoc_mid, app_length. cbn [length]. lia. }
    rewrite Hn. replace (S (length (a ++ x :: b)) - 1)%nat with (length (a ++ x :: b)) by lia.
    destruct (Nat.ltb_spec (length a) (S (length (a ++ x :: b)))) as [_|H]; [|rewrite len_mid in H; lia].
    rewrite swap_remove_mid.
    assert (Hl2 : length (a ++ x :: b) = length (a ++ e :: b)) by (rewrite !len_mid; reflexivity).
    destruct (existsb (key_match k) (map fst (a ++ e :: b))) eqn:E.
    - destruct (map_insert_found _ k v E) as [Hl _].
      rewrite swap_indices_oob by lia. reflexivity.
    - rewrite (map_insert_fresh _ k v E).
      rewrite <- assoc_mid, Hl2, swap_indices_ends. reflexivity.
  Qed.

  Lemma index_assign_fail m i k (v : V) : (length m <= i)%nat -> index_assign m i k v = Fail.
  Proof.
    intros H. unfold index_assign.
    destruct (Nat.ltb_spec i (length m)); [lia | reflexivity].
  Qed.
End MapLemmas.

(* spec-side facts *)

Lemma clashes_split ka kx kr k :
  clashes (ka ++ kx :: kr) (length ka) k = existsb (same k) ka || existsb (same k) kr.
Proof. induction ka as [|y ka IH]; simpl; auto. rewrite IH. apply orb_assoc. Qed.

Lemma replace_nth_split ka kx kr k :
  replace_nth (ka ++ kx :: kr) (length ka) k = ka ++ k :: kr.
Proof. induction ka as [|y ka IH]; simpl; auto. f_equal. exact IH. Qed.

Lemma spec_insert_in ks k x : In x (spec_insert ks k) -> In x ks \/ x = k.
Proof.
  unfold spec_insert. destruct (existsb (same k) ks); auto.
  rewrite in_app_iff. simpl. intuition.
Qed.

Lemma spec_remove_in ks k x : In x (spec_remove ks k) -> In x ks.
Proof.
  induction ks as [|y ks IH]; simpl; auto.
  destruct (same k y); simpl; intuition.
Qed.

Lemma replace_nth_in ks i k x : In x (replace_nth ks i k) -> In x ks \/ x = k.
Proof.
  revert i; induction ks as [|y ks IH]; intros [|i]; simpl; auto.
  - intuition.
  - intros [H|H]; auto. apply IH in H. intuition.
Qed.

Lemma fold_spec_insert_in l : forall ks x, In x (fold_left spec_insert l ks) -> In x ks \/ In x l.
Proof.
  induction l as [|k l IH]; simpl; auto.
  intros ks x H. apply IH in H. destruct H as [H|H]; auto.
  apply spec_insert_in in H. intuition.
Qed.

Section MapOrder.
  Context {V : Type}.
  Variable sort_entries : (val * V -> val * V -> comparison) -> list (val * V) -> list (val * V).
  Variable sort_keys : (val -> val -> comparison) -> list val -> list val.
  Variable dflt : V.
  (* the sorting routine treats entries as their keys *)
  Hypothesis sort_natural : forall cmp (m : list (val * V)),
      map fst (sort_entries (fun a b => cmp (fst a) (fst b)) m) = sort_keys cmp (map fst m).
  (* sorting invents no keys *)
  Hypothesis sort_keys_perm : forall cmp l k, In k (sort_keys cmp l) -> In k l.
  Variable U : val -> Prop.
  Hypothesis U_hash_ok : hash_ok_on U.

  Implicit Types (m : list (val * V)).

  Definition keysU (ks : list val) : Prop := forall x, In x ks -> U x.

  Lemma match_same q k : U q -> U k -> key_match q k = same q k.
  Proof.
    intros Hq Hk. unfold key_match, same. destruct (key_eq q k) eqn:E.
    - rewrite (U_hash_ok q k Hq Hk E). reflexivity.
    - apply andb_false_r.
  Qed.

  Lemma existsb_match_same ks k : keysU ks -> U k -> existsb (key_match k) ks = existsb (same k) ks.
  Proof.
    intros Hks Hk. induction ks as [|y ks IH]; simpl; auto.
    rewrite match_same by (auto; apply Hks; simpl; auto).
    rewrite IH; auto. intros x Hx; apply Hks; simpl; auto.
  Qed.

  Lemma get_index_of_U m q :
    keysU (map fst m) -> U q -> get_index_of m q = find_from (key_eq q) m 0.
  Proof.
    intros Hm Hq. destruct m as [|[k x] [|e r]]; try reflexivity.
    unfold get_index_of, find_hashed. apply find_from_ext.
    intros y Hy. apply match_same; auto.
  Qed.

  Theorem map_insert_keys m k (v : V) :
    keysU (map fst m) -> U k -> map fst (map_insert m k v) = spec_insert (map fst m) k.
  Proof.
    intros Hm Hk. unfold spec_insert. rewrite <- existsb_match_same by auto.
    destruct (existsb (key_match k) (map fst m)) eqn:E.
    - apply map_insert_found; exact E.
    - rewrite (map_insert_fresh m k v E), map_app. reflexivity.
  Qed.

  Theorem shift_remove_keys m k :
    keysU (map fst m) -> U k -> map fst (snd (shift_remove m k)) = spec_remove (map fst m) k.
  Proof.
    intros Hm Hk. unfold shift_remove. rewrite get_index_of_U by auto.
    destruct (find_from (key_eq k) m 0) as [j|] eqn:E; simpl.
    - apply find_from_remove in E. rewrite Nat.sub_0_r in E. apply E.
    - symmetry. eapply find_from_none_remove; eauto.
  Qed.

  Theorem map_extend_keys l : forall m,
    keysU (map fst m) -> keysU l ->
    map fst (map_extend m (map (fun k => (k, dflt)) l)) = fold_left spec_insert l (map fst m).
  Proof.
    induction l as [|k l IH]; intros m Hm Hl; [reflexivity|].
    unfold map_extend in *. simpl.
    assert (Hk : U k) by (apply Hl; simpl; auto).
    rewrite IH.
    - rewrite map_insert_keys by auto. reflexivity.
    - rewrite map_insert_keys by auto. intros x Hx. apply spec_insert_in in Hx.
      destruct Hx as [Hx| ->]; auto.
    - intros x Hx; apply Hl; simpl; auto.
  Qed.

  (* --- index_assign --- *)

  Theorem index_assign_panics : forall (m : list (val * V)) i k v,
      (forall x, In x (map fst m) -> U x) -> U k -> (i < length m)%nat ->
      clashes (map fst m) i k = true -> index_assign m i k v = Panic.
  Proof.
    intros m i k v Hm Hk Hi Hc.
    destruct (split_at m i Hi) as (a & x & Hl & [-> | (b & e & ->)]); subst i.
    - rewrite index_assign_last.
      rewrite map_app in Hm, Hc. simpl in Hm, Hc.
      rewrite <- (map_length fst a), clashes_split in Hc. simpl in Hc. rewrite orb_false_r in Hc.
      rewrite existsb_match_same, Hc; auto.
      intros y Hy; apply Hm; rewrite in_app_iff; auto.
    - rewrite index_assign_mid.
      rewrite map_app in Hm, Hc. simpl in Hm, Hc. rewrite map_app in Hm, Hc. simpl in Hm, Hc.
      rewrite <- (map_length fst a), clashes_split, existsb_app in Hc. simpl in Hc.
      rewrite existsb_match_same; auto.
      + rewrite map_app, existsb_app. simpl.
        destruct (existsb (same k) (map fst a)), (existsb (same k) (map fst b)), (same k (fst e));
          simpl in *; try discriminate; auto.
      + intros y Hy. apply Hm. rewrite ?map_app in Hy. simpl in Hy.
        rewrite ?in_app_iff in *. simpl in *. rewrite ?in_app_iff. simpl. intuition.
  Qed.

  Theorem index_assign_done : forall (m : list (val * V)) i k v,
      (forall x, In x (map fst m) -> U x) -> U k -> (i < length m)%nat ->
      clashes (map fst m) i k = false ->
      exists m', index_assign m i k v = Done m' /\ map fst m' = replace_nth (map fst m) i k.
  Proof.
    intros m i k v Hm Hk Hi Hc.
    destruct (split_at m i Hi) as (a & x & Hl & [-> | (b & e & ->)]); subst i.
    - rewrite index_assign_last.
      rewrite map_app in Hm, Hc |- *. simpl in Hm, Hc |- *.
      rewrite <- (map_length fst a), clashes_split in Hc. simpl in Hc. rewrite orb_false_r in Hc.
      rewrite <- (map_length fst a), replace_nth_split.
      rewrite existsb_match_same, Hc; auto.
      + eexists; split; [reflexivity|]. rewrite map_app. reflexivity.
      + intros y Hy; apply Hm; rewrite in_app_iff; auto.
    - rewrite index_assign_mid.
      rewrite map_app in Hm, Hc |- *. simpl in Hm, Hc |- *. rewrite map_app in Hm, Hc |- *. simpl in Hm, Hc |- *.
      rewrite <- (map_length fst a), clashes_split, existsb_app in Hc. simpl in Hc.
      rewrite <- (map_length fst a), replace_nth_split.
      rewrite existsb_match_same; auto.
      + rewrite map_app, existsb_app. simpl.
        destruct (existsb (same k) (map fst a)), (existsb (same k) (map fst b)), (same k (fst e));
          simpl in *; try discriminate.
        eexists; split; [reflexivity|]. rewrite map_app. simpl. rewrite map_app. reflexivity.
      + intros y Hy. apply Hm. rewrite ?map_app in Hy. simpl in Hy.
        rewrite ?in_app_iff in *. simpl in *. rewrite ?in_app_iff. simpl. intuition.
  Qed.

  Theorem index_assign_panic_iff : forall (m : list (val * V)) i k v,
      (forall x, In x (map fst m) -> U x) -> U k ->
      (index_assign m i k v = Panic <-> (i < length m)%nat /\ clashes (map fst m) i k = true).
  Proof.
    intros m i k v Hm Hk. split.
    - intros H. destruct (Nat.lt_ge_cases i (length m)) as [Hi|Hi].
      + split; auto. destruct (clashes (map fst m) i k) eqn:E; auto.
        destruct (index_assign_done m i k v Hm Hk Hi E) as (m' & H' & _). congruence.
      + rewrite index_assign_fail in H by auto. discriminate.
    - intros [Hi Hc]. apply index_assign_panics; auto.
  Qed.

  Theorem index_assign_fail_iff : forall (m : list (val * V)) i k v,
      (forall x, In x (map fst m) -> U x) -> U k ->
      (index_assign m i k v = Fail <-> (length m <= i)%nat).
  Proof.
    intros m i k v Hm Hk. split.
    - intros H. destruct (Nat.lt_ge_cases i (length m)) as [Hi|Hi]; auto.
      destruct (clashes (map fst m) i k) eqn:E.
      + rewrite index_assign_panics in H by auto. discriminate.
      + destruct (index_assign_done m i k v Hm Hk Hi E) as (m' & H' & _). congruence.
    - apply index_assign_fail.
  Qed.

  (* --- one step, then all histories --- *)

  Lemma spec_step_keysU ks o ks' :
    keysU ks -> keysU (mop_keys o) -> spec_step sort_keys ks o = Some ks' -> keysU ks'.
  Proof.
    unfold keysU. intros Hks Ho H x Hx. destruct o as [k|k|l| |i k]; simpl in *.
    - inversion H; subst. apply spec_insert_in in Hx. destruct Hx as [Hx| ->]; auto.
    - inversion H; subst. apply spec_remove_in in Hx. auto.
    - inversion H; subst. apply fold_spec_insert_in in Hx. destruct Hx; auto.
    - inversion H; subst. apply sort_keys_perm in Hx. auto.
    - destruct (Nat.ltb i (length ks)).
      + destruct (clashes ks i k); [discriminate|]. inversion H; subst.
        apply replace_nth_in in Hx. destruct Hx as [Hx| ->]; auto.
      + inversion H; subst; auto.
  Qed.

  Lemma step_refines m o :
    keysU (map fst m) -> keysU (mop_keys o) ->
    option_map (map fst) (model_step sort_entries dflt m o) = spec_step sort_keys (map fst m) o.
  Proof.
    intros Hm Ho. destruct o as [k|k|l| |i k]; simpl.
    - rewrite map_insert_keys; auto. apply Ho; simpl; auto.
    - rewrite shift_remove_keys; auto. apply Ho; simpl; auto.
    - rewrite map_extend_keys; auto.
    - unfold map_sort. rewrite sort_natural. reflexivity.
    - assert (Hk : U k) by (apply Ho; simpl; auto).
      rewrite map_length.
      destruct (Nat.ltb_spec i (length m)) as [Hi|Hi].
      + destruct (clashes (map fst m) i k) eqn:E.
        * rewrite index_assign_panics by auto. reflexivity.
        * destruct (index_assign_done m i k dflt Hm Hk Hi E) as (m' & -> & Hk'). simpl. congruence.
      + rewrite index_assign_fail by auto. reflexivity.
  Qed.

  Theorem map_order : forall ops (m : list (val * V)),
      (forall k, In k (map fst m) -> U k) ->
      (forall o, In o ops -> forall k, In k (mop_keys o) -> U k) ->
      option_map (map fst) (model_run sort_entries dflt m ops) = spec_run sort_keys (map fst m) ops.
  Proof.
    induction ops as [|o ops IH]; intros m Hm Hops; simpl; [reflexivity|].
    assert (Ho : keysU (mop_keys o)) by (intros k Hk; apply (Hops o); simpl; auto).
    pose proof (step_refines m o Hm Ho) as Hs.
    destruct (model_step sort_entries dflt m o) as [m'|] eqn:E; simpl in Hs; rewrite <- Hs.
    - apply IH.
      + apply (spec_step_keysU (map fst m) o); auto.
      + intros o' Ho'. apply Hops. simpl; auto.
    - reflexivity.
  Qed.
End MapOrder.

(* the panic is real: assigning the key of the second entry to the first entry *)
Example index_assign_panic_witness :
  index_assign [(VStr [97%Z], VNull); (VStr [98%Z], VNull); (VStr [99%Z], VNull)] 0 (VStr [98%Z]) VNull = Panic.
Proof. vm_compute; reflexivity. Qed.

(* non-vacuity of the other two outcomes *)
Example index_assign_done_witness :
  index_assign [(VStr [97%Z], VNull); (VStr [98%Z], VNull); (VStr [99%Z], VNull)] 0 (VStr [100%Z]) VNull
  = Done [(VStr [100%Z], VNull); (VStr [98%Z], VNull); (VStr [99%Z], VNull)].
Proof. vm_compute; reflexivity. Qed.

Example index_assign_fail_witness :
  index_assign [(VStr [97%Z], VNull)] 1 (VStr [100%Z]) VNull = Fail.
Proof. vm_compute; reflexivity. Qed.

(* ------------------------------------------------------------------ B. sorting *)

(* bytes_cmp_refl and bytes_cmp_swap (antisymmetry) come from NumProofs *)

Lemma bytes_cmp_trans_le a : forall b c,
  bytes_cmp a b <> Gt -> bytes_cmp b c <> Gt -> bytes_cmp a c <> Gt.
Proof.
  induction a as [|x a IH]; intros [|y b] [|z c]; simpl; try (intros; congruence).
  destruct (Z.compare_spec x y), (Z.compare_spec y z), (Z.compare_spec x z); subst;
    try lia; try (intros; congruence).
  apply IH.
Qed.

Lemma compare_values_num x y : compare_values (VNum x) (VNum y) = Some (num_cmp x y).
Proof. unfold compare_values, vlt, vgt, num_lt, num_gt. destruct (num_cmp x y); reflexivity. Qed.

Lemma compare_values_str x y : compare_values (VStr x) (VStr y) = Some (bytes_cmp x y).
Proof. unfold compare_values, vlt, vgt. destruct (bytes_cmp x y); reflexivity. Qed.

Lemma cv_total_num x y : cv_total (VNum x) (VNum y) = num_cmp x y.
Proof. unfold cv_total. rewrite compare_values_num. reflexivity. Qed.

Lemma cv_total_str x y : cv_total (VStr x) (VStr y) = bytes_cmp x y.
Proof. unfold cv_total. rewrite compare_values_str. reflexivity. Qed.

Lemma vle_num x y : num_cmp x y <> Gt -> vle (VNum x) (VNum y) = Some true.
Proof. unfold vle, num_le. destruct (num_cmp x y); congruence. Qed.

Lemma vle_str x y : bytes_cmp x y <> Gt -> vle (VStr x) (VStr y) = Some true.
Proof. unfold vle, cmp_le. destruct (bytes_cmp x y); congruence. Qed.

Lemma num_cmp_F x y c : fcmp x y = Some c -> num_cmp (F x) (F y) = c.
Proof. intros H. unfold num_cmp, num_partial. rewrite H. reflexivity. Qed.

Section Sorting.
  Variable sorter : (val -> val -> comparison) -> list val -> list val.
  Hypothesis sorter_ok : sort_contract sorter.

  (* f64::partial_cmp on non-NaN floats is a total order: fcmp_refl, fcmp_swap, fcmp_total,
     fcmp_trans_le of NumProofs *)

  (* a class of values on which compare_values is a total preorder *)
  Section Class.
    Variable P : val -> Prop.
    Hypothesis P_refl : forall a, P a -> cv_total a a = Eq.
    Hypothesis P_sym : forall a b, P a -> P b -> cv_total b a = CompOpp (cv_total a b).
    Hypothesis P_trans : forall a b c, P a -> P b -> P c ->
        cv_total a b <> Gt -> cv_total b c <> Gt -> cv_total a c <> Gt.
    Hypothesis P_comp : forall a b, P a -> P b -> exists c, compare_values a b = Some c.
    Hypothesis P_le : forall a b, P a -> P b -> cv_total a b <> Gt -> vle a b = Some true.

    Lemma class_preorder l : (forall x, In x l -> P x) -> total_preorder_on cv_total l.
    Proof.
      intros HP. split; [|split].
      - intros a Ha. apply P_refl; auto.
      - intros a b Ha Hb. apply P_sym; auto.
      - intros a b c Ha Hb Hc. apply P_trans; auto.
    Qed.

    Lemma class_comparable l : (forall x, In x l -> P x) -> all_pairs_comparable l = true.
    Proof.
      induction l as [|x r IH]; intros HP; simpl; auto.
      apply andb_true_iff. split.
      - apply forallb_forall. intros y Hy.
        destruct (P_comp x y) as [c ->]; try (apply HP; simpl; auto).
        destruct (P_comp y x) as [c' ->]; try (apply HP; simpl; auto).
        reflexivity.
      - apply IH. intros; apply HP; simpl; auto.
    Qed.

    Lemma class_sorted l : (forall x, In x l -> P x) ->
      exists l', sort_values sorter l = Some l' /\ Permutation l l' /\
                 StronglySorted (fun a b => vle a b = Some true) l'.
    Proof.
      intros HP.
      destruct l as [|x [|y r]].
      - exists []. split; [reflexivity|]. split; [apply Permutation_refl|constructor].
      - exists [x]. split; [reflexivity|]. split; [apply Permutation_refl|].
        constructor; constructor.
      - set (l := x :: y :: r) in *.
        destruct (sorter_ok cv_total l (class_preorder l HP)) as [Hperm Hsorted].
        exists (sorter cv_total l). split; [|split; [exact Hperm|]].
        + unfold sort_values, l. fold l. rewrite (class_comparable l HP). reflexivity.
        + eapply StronglySorted_impl_in; [exact Hsorted|].
          intros a b Ha Hb Hab.
          apply P_le; [| |exact Hab]; apply HP;
            apply (Permutation_in _ (Permutation_sym Hperm)); assumption.
    Qed.
  End Class.

  (* numbers, by a class of KNumbers on which Ord::cmp is a total preorder *)
  Section NumClass.
    Variable Q : num -> Prop.
    Hypothesis Q_refl : forall a, Q a -> num_cmp a a = Eq.
    Hypothesis Q_sym : forall a b, Q a -> Q b -> num_cmp b a = CompOpp (num_cmp a b).
    Hypothesis Q_trans : forall a b c, Q a -> Q b -> Q c ->
        num_cmp a b <> Gt -> num_cmp b c <> Gt -> num_cmp a c <> Gt.

    Definition PQ (v : val) : Prop := match v with VNum n => Q n | _ => False end.

    Lemma num_class_sorted l : (forall x, In x l -> PQ x) ->
      exists l', sort_values sorter l = Some l' /\ Permutation l l' /\
                 StronglySorted (fun a b => vle a b = Some true) l'.
    Proof.
      apply class_sorted.
      - intros [| |x| | | | |]; unfold PQ; try tauto.
        intros. rewrite cv_total_num. auto.
      - intros [| |x| | | | |] [| |y| | | | |]; unfold PQ; try tauto.
        intros. rewrite !cv_total_num. auto.
      - intros [| |x| | | | |] [| |y| | | | |] [| |z| | | | |]; unfold PQ; try tauto.
        rewrite !cv_total_num. apply Q_trans.
      - intros [| |x| | | | |] [| |y| | | | |]; unfold PQ; try tauto.
        intros. rewrite compare_values_num. eauto.
      - intros [| |x| | | | |] [| |y| | | | |]; unfold PQ; try tauto.
        intros _ _. rewrite cv_total_num. apply vle_num.
    Qed.
  End NumClass.

  Definition Qint (n : num) : Prop := match n with I _ => True | F _ => False end.
  Definition Qfloat (n : num) : Prop := match n with I _ => False | F x => f_is_nan x = false end.
  Definition Pstr (v : val) : Prop := match v with VStr _ => True | _ => False end.

  Lemma ints_sorted l : (forall x, In x l -> PQ Qint x) ->
    exists l', sort_values sorter l = Some l' /\ Permutation l l' /\
               StronglySorted (fun a b => vle a b = Some true) l'.
  Proof.
    apply num_class_sorted.
    - intros [x|x]; simpl; try tauto. intros _. apply Z.compare_refl.
    - intros [x|x] [y|y]; simpl; try tauto. intros _ _. apply Z.compare_antisym.
    - intros [x|x] [y|y] [z|z]; simpl; try tauto. intros _ _ _.
      change ((x <= y)%Z -> (y <= z)%Z -> (x <= z)%Z). lia.
  Qed.

  Lemma floats_sorted l : (forall x, In x l -> PQ Qfloat x) ->
    exists l', sort_values sorter l = Some l' /\ Permutation l l' /\
               StronglySorted (fun a b => vle a b = Some true) l'.
  Proof.
    apply num_class_sorted.
    - intros [x|x]; unfold Qfloat; try tauto. intros Hx.
      apply num_cmp_F. apply fcmp_refl; exact Hx.
    - intros [x|x] [y|y]; unfold Qfloat; try tauto. intros Hx Hy.
      destruct (fcmp_total x y Hx Hy) as [c Hc].
      pose proof (fcmp_swap x y) as Hs. rewrite Hc in Hs.
      rewrite (num_cmp_F _ _ _ Hc), (num_cmp_F _ _ _ Hs). reflexivity.
    - intros [x|x] [y|y] [z|z]; unfold Qfloat; try tauto. intros Hx Hy Hz.
      destruct (fcmp_total x y Hx Hy) as [c1 H1].
      destruct (fcmp_total y z Hy Hz) as [c2 H2].
      rewrite (num_cmp_F _ _ _ H1), (num_cmp_F _ _ _ H2). intros L1 L2.
      destruct (fcmp_trans_le x y z c1 c2 Hx Hy Hz H1 L1 H2 L2) as (c3 & H3 & L3).
      rewrite (num_cmp_F _ _ _ H3). exact L3.
  Qed.

  Lemma strs_sorted l : (forall x, In x l -> Pstr x) ->
    exists l', sort_values sorter l = Some l' /\ Permutation l l' /\
               StronglySorted (fun a b => vle a b = Some true) l'.
  Proof.
    apply class_sorted.
    - intros [| | |x| | | |]; unfold Pstr; try tauto.
      intros. rewrite cv_total_str. apply bytes_cmp_refl.
    - intros [| | |x| | | |] [| | |y| | | |]; unfold Pstr; try tauto.
      intros. rewrite !cv_total_str. apply bytes_cmp_swap.
    - intros [| | |x| | | |] [| | |y| | | |] [| | |z| | | |]; unfold Pstr; try tauto.
      intros _ _ _. rewrite !cv_total_str. apply bytes_cmp_trans_le.
    - intros [| | |x| | | |] [| | |y| | | |]; unfold Pstr; try tauto.
      intros. rewrite compare_values_str. eauto.
    - intros [| | |x| | | |] [| | |y| | | |]; unfold Pstr; try tauto.
      intros _ _. rewrite cv_total_str. apply vle_str.
  Qed.

  Theorem sort_sorted_perm : forall l, sortable l = true ->
    exists l', sort_values sorter l = Some l' /\ Permutation l l' /\
               StronglySorted (fun a b => vle a b = Some true) l'.
  Proof.
    intros l Hs. unfold sortable in Hs.
    apply orb_true_iff in Hs. destruct Hs as [Hs|Hs]; [apply orb_true_iff in Hs; destruct Hs as [Hs|Hs]|].
    - apply ints_sorted. unfold all_ints in Hs. rewrite forallb_forall in Hs.
      intros x Hx. apply Hs in Hx. destruct x as [| |[z|f]| | | | |]; try discriminate. exact Logic.I.
    - apply floats_sorted. unfold all_floats in Hs. rewrite forallb_forall in Hs.
      intros x Hx. apply Hs in Hx. destruct x as [| |[z|f]| | | | |]; try discriminate.
      apply negb_true_iff in Hx. exact Hx.
    - apply strs_sorted. unfold all_strs in Hs. rewrite forallb_forall in Hs.
      intros x Hx. apply Hs in Hx. destruct x as [| |n|s| | | |]; try discriminate. exact Logic.I.
  Qed.
End Sorting.

(* on mixed integers and floats compare_values is NOT a total preorder: 2^53 (int) == 2^53 (float)
   and 2^53 (float) == 2^53 + 1 (int, rounds to 2^53 as f64), but 2^53 < 2^53 + 1 as integers.
   In the `<> Gt` form of transitivity: c <= b, b <= a, but c > a. *)
Theorem compare_values_preorder_refuted :
  ~ total_preorder_on cv_total
      [VNum (I 9007199254740992); VNum (F (b64_of_bits 4845873199050653696)); VNum (I 9007199254740993)].
Proof.
  intros [_ [_ T]].
  apply (T (VNum (I 9007199254740993)) (VNum (F (b64_of_bits 4845873199050653696)))
           (VNum (I 9007199254740992))).
  - right; right; left; reflexivity.
  - right; left; reflexivity.
  - left; reflexivity.
  - vm_compute. discriminate.
  - vm_compute. discriminate.
  - vm_compute. reflexivity.
Qed.

Example cv_total_witness_values :
  cv_total (VNum (I 9007199254740992)) (VNum (F (b64_of_bits 4845873199050653696))) = Eq /\
  cv_total (VNum (F (b64_of_bits 4845873199050653696))) (VNum (I 9007199254740993)) = Eq /\
  cv_total (VNum (I 9007199254740992)) (VNum (I 9007199254740993)) = Lt.
Proof. vm_compute. repeat split. Qed.
