(* C14 — Value model: sharing, copying, equality, ordering and map keys.
   ONLY the pinned statements live here; every proof is `exact <lemma of *Proofs.v>`.
   Statements quantify over ALL values / keys / histories.  Classes:
     wf_val v   : no NaN, integers in i64 range, maps have hashable pairwise-different keys (what map
                  operations produce);
     key_ok k   : hashable, no NaN, integers within +-2^53 (beyond that `==` is not transitive: finding C14e);
     sortable   : all integers, or all non-NaN floats, or all strings. *)
From Coq Require Import ZArith List Bool Sorting.Permutation Sorting.Sorted.
From Flocq Require Import IEEE754.Binary IEEE754.Bits.
From KV.val Require Import ValModel HeapModel ValSpec NumProofs EqProofs MapProofs HeapProofs.
Import ListNotations.
Open Scope Z_scope.

(* ------------------------------------------------------------------ numbers *)

Theorem num_eq_refl : forall n, num_ok n = true -> num_eq n n = true.
Proof. exact NumProofs.num_eq_refl. Qed.
Print Assumptions num_eq_refl.

Theorem num_eq_sym : forall a b, num_eq a b = num_eq b a.
Proof. exact NumProofs.num_eq_sym. Qed.
Print Assumptions num_eq_sym.

Theorem num_lt_irrefl : forall a, num_lt a a = false.
Proof. exact NumProofs.num_lt_irrefl. Qed.
Print Assumptions num_lt_irrefl.

(* mixed int / float: `<` is transitive (monotonicity of i64 -> f64 rounding) *)
Theorem num_lt_trans : forall a b c, num_ok a = true -> num_ok b = true -> num_ok c = true ->
    num_lt a b = true -> num_lt b c = true -> num_lt a c = true.
Proof. exact NumProofs.num_lt_trans. Qed.
Print Assumptions num_lt_trans.

(* exactly one of a < b, a == b, b < a *)
Theorem num_trichotomy : forall a b, num_ok a = true -> num_ok b = true ->
    (num_lt a b = true /\ num_eq a b = false /\ num_lt b a = false) \/
    (num_lt a b = false /\ num_eq a b = true /\ num_lt b a = false) \/
    (num_lt a b = false /\ num_eq a b = false /\ num_lt b a = true).
Proof. exact NumProofs.num_trichotomy. Qed.
Print Assumptions num_trichotomy.

(* `==` itself is NOT transitive: 2^53 == 2^53 as f64 == 2^53+1, but 2^53 < 2^53+1 (finding C14e) *)
Theorem num_eq_trans_refuted : exists a b c, num_ok a = true /\ num_ok b = true /\ num_ok c = true /\
    num_eq a b = true /\ num_eq b c = true /\ num_eq a c = false /\ num_lt a c = true.
Proof. exact NumProofs.num_eq_trans_refuted. Qed.
Print Assumptions num_eq_trans_refuted.

(* strings: byte-wise `<` is a strict total order *)
Theorem str_lt_strict_total :
  (forall a, str_lt a a = false) /\
  (forall a b c, str_lt a b = true -> str_lt b c = true -> str_lt a c = true) /\
  (forall a b, (str_lt a b = true /\ bytes_eqb a b = false /\ str_lt b a = false) \/
               (str_lt a b = false /\ bytes_eqb a b = true /\ str_lt b a = false) \/
               (str_lt a b = false /\ bytes_eqb a b = false /\ str_lt b a = true)).
Proof. exact NumProofs.str_lt_strict_total. Qed.
Print Assumptions str_lt_strict_total.

(* ------------------------------------------------------------------ == and != on nested values *)

Theorem vne_is_negb_veq : forall a b, vne a b = negb (veq a b).
Proof. exact EqProofs.vne_is_negb_veq. Qed.
Print Assumptions vne_is_negb_veq.

Theorem veq_refl : forall v, wf_val v = true -> veq v v = true.
Proof. exact EqProofs.veq_refl. Qed.
Print Assumptions veq_refl.

(* includes maps: compare_value_maps LOOKS UP the left keys in the right map *)
Theorem veq_sym : forall a b, wf_val a = true -> wf_val b = true -> veq a b = true -> veq b a = true.
Proof. exact EqProofs.veq_sym. Qed.
Print Assumptions veq_sym.

(* ------------------------------------------------------------------ map keys *)

Theorem key_eq_is_veq : forall x y, hashable x = true -> key_eq x y = veq x y.
Proof. exact EqProofs.key_eq_is_veq. Qed.
Print Assumptions key_eq_is_veq.

(* the hash respects ==: equal keys feed the hasher the same input — ALL values (fix of C14a in /repo:
   KNumber::hash writes the normalized f64 bits) *)
Theorem hash_respects_eq : forall x y, key_eq x y = true -> hstream x = hstream y.
Proof. exact EqProofs.hash_respects_eq. Qed.
Print Assumptions hash_respects_eq.

(* after inserting k, k' addresses that entry exactly when k == k' (keys: hashable, NaN-free, integers exactly
   convertible to f64 — beyond 2^53 `==` is not an equivalence, finding C14e) *)
Theorem key_identity : forall (V : Type) (U : val -> Prop),
    (forall k, U k -> key_ok k) ->
    forall (m : list (val * V)) k k' v,
      (forall x, In x (map fst m) -> U x) -> U k -> U k' -> Distinct (map fst m) ->
      get_index_of (snd (insert_full m k v)) k' = Some (fst (fst (insert_full m k v))) <-> key_eq k k' = true.
Proof. intros V. exact (@EqProofs.key_identity V). Qed.
Print Assumptions key_identity.

(* 1 and 1.0: one key in maps of any size *)
Theorem key_identity_mixed :
    key_ok w_k /\ key_ok w_k' /\ key_eq w_k w_k' = true /\ hstream w_k = hstream w_k' /\
    get_index_of (snd (insert_full (@nil (val * val)) w_k VNull)) w_k' = Some 0%nat /\
    get_index_of (snd (insert_full w_map w_k VNull)) w_k' = Some 1%nat /\
    get_index_of (snd (insert_full w_map4 w_k VNull)) w_k' = Some 4%nat /\
    fst (fst (insert_full (snd (insert_full w_map4 w_k VNull)) w_k' VNull)) = 4%nat.
Proof. exact EqProofs.key_identity_mixed. Qed.
Print Assumptions key_identity_mixed.

(* ------------------------------------------------------------------ map order *)

(* after any history the key sequence is the spec's function of the history, for ALL keys; both sides are
   None exactly when `m[i] = (k, _)` hits the panic of finding C14b *)
Theorem map_order : forall (V : Type)
    (sort_entries : (val * V -> val * V -> comparison) -> list (val * V) -> list (val * V))
    (sort_keys : (val -> val -> comparison) -> list val -> list val) (dflt : V),
    (forall cmp (m : list (val * V)), map fst (sort_entries (fun a b => cmp (fst a) (fst b)) m) = sort_keys cmp (map fst m)) ->
    (forall cmp l k, In k (sort_keys cmp l) -> In k l) ->
    forall (ops : list mop) (m : list (val * V)),
      option_map (map fst) (model_run sort_entries dflt m ops) = spec_run sort_keys (map fst m) ops.
Proof.
  intros V se sk d Hn Hp ops m.
  apply (@MapProofs.map_order V se sk d Hn Hp (fun _ => True) (EqProofs.hash_ok_all _)); auto.
Qed.
Print Assumptions map_order.

Theorem index_assign_panics : forall (V : Type) (m : list (val * V)) i k v,
      (i < length m)%nat -> clashes (map fst m) i k = true -> index_assign m i k v = Panic.
Proof.
  intros V m i k v Hi Hc.
  apply (@MapProofs.index_assign_panics V (fun _ => True) (EqProofs.hash_ok_all _)); auto.
Qed.
Print Assumptions index_assign_panics.

(* ------------------------------------------------------------------ sharing / copying *)

Section Heap.
  Variable sort_vals : (val -> val -> comparison) -> list val -> list val.
  Variable sort_entries : (val * hval -> val * hval -> comparison) -> list (val * hval) -> list (val * hval).
  Let step := HeapModel.step sort_vals sort_entries.
  Let exec := ValSpec.exec sort_vals sort_entries.
  Let avoids := ValSpec.avoids sort_vals sort_entries.

  (* after `y = x` both names hold the same handle at every later point of any history *)
  Theorem alias_shared : forall s x s1 st, step s (OAlias x) = (s1, st) ->
      forall v, nth_error (st_env s) x = Some v ->
      forall ops (fuel : nat), let s2 := exec s1 ops in
        exists a b, nth_error (st_env s2) (length (st_env s)) = Some a /\ nth_error (st_env s2) x = Some b /\
                    resolve fuel (st_heap s2) a = resolve fuel (st_heap s2) b.
  Proof. exact (HeapProofs.alias_shows_same sort_vals sort_entries). Qed.

  (* koto.copy: fresh top level, same children; histories that do not mutate through the one never change
     the top level of the other *)
  Theorem copy_top_independent : forall s x l xs s1,
      nth_error (st_env s) x = Some (HList l) -> nth_error (st_heap s) l = Some (OList xs) ->
      step s (OCopy x) = (s1, SOk) ->
      let l' := length (st_heap s) in
      l' <> l /\ nth_error (st_env s1) (length (st_env s)) = Some (HList l') /\
      nth_error (st_heap s1) l' = Some (OList xs) /\ nth_error (st_heap s1) l = Some (OList xs) /\
      (forall ops, avoids l' s1 ops -> nth_error (st_heap (exec s1 ops)) l' = Some (OList xs)) /\
      (forall ops, avoids l s1 ops -> nth_error (st_heap (exec s1 ops)) l = Some (OList xs)).
  Proof. exact (HeapProofs.copy_top_independent sort_vals sort_entries). Qed.

  (* koto.deep_copy: mutations through old containers never show through the copy and vice versa *)
  Theorem deep_copy_independent : forall s x s1, wf_state s -> step s (ODeepCopy x) = (s1, SOk) ->
      exists v', nth_error (st_env s1) (length (st_env s)) = Some v' /\
      let R := (fun l => Nat.leb (length (st_heap s)) l && Nat.ltb l (length (st_heap s1))) in
      (forall ops, (forall l, R l = true -> avoids l s1 ops) ->
         forall fuel, resolve fuel (st_heap (exec s1 ops)) v' = resolve fuel (st_heap s1) v') /\
      (forall ops, (forall l, (l < length (st_heap s))%nat -> avoids l s1 ops) ->
         forall fuel y v, nth_error (st_env s) y = Some v ->
           resolve fuel (st_heap (exec s1 ops)) v = resolve fuel (st_heap s) v).
  Proof. exact (HeapProofs.deep_copy_independent sort_vals sort_entries). Qed.

  (* numbers, strings, ranges and tuples of those: never rebound, same tree in every heap *)
  Theorem immutables_frozen : forall s ops x v, nth_error (st_env s) x = Some v -> locs_of v = [] ->
      nth_error (st_env (exec s ops)) x = Some v /\ forall fuel h', resolve fuel h' v = resolve fuel (st_heap s) v.
  Proof. exact (HeapProofs.immutables_frozen sort_vals sort_entries). Qed.
End Heap.
Print Assumptions alias_shared.
Print Assumptions copy_top_independent.
Print Assumptions deep_copy_independent.
Print Assumptions immutables_frozen.

(* ------------------------------------------------------------------ sorting *)

Theorem sort_sorted_perm : forall sorter : (val -> val -> comparison) -> list val -> list val,
    sort_contract sorter ->
    forall l, sortable l = true ->
      exists l', sort_values sorter l = Some l' /\ Permutation l l' /\
                 StronglySorted (fun a b => vle a b = Some true) l'.
Proof. exact MapProofs.sort_sorted_perm. Qed.
Print Assumptions sort_sorted_perm.

(* mixed int / float lists are outside: compare_values is not a total preorder there (finding C14e) *)
Theorem compare_values_preorder_refuted :
  ~ total_preorder_on cv_total
      [VNum (I 9007199254740992); VNum (F (b64_of_bits 4845873199050653696)); VNum (I 9007199254740993)].
Proof. exact MapProofs.compare_values_preorder_refuted. Qed.
Print Assumptions compare_values_preorder_refuted.

(* ------------------------------------------------------------------ non-vacuity *)

(* a nested value with a two-entry map satisfies the hypotheses of veq_refl / veq_sym *)
Example wf_nested :
  wf_val (VList [VNum (I 1); VMap [(VStr [97], VList [VNum (F (b64_of_bits 4609434218613702656))]); (VNum (I 2), VTuple [VNull])]]) = true.
Proof. vm_compute. reflexivity. Qed.

(* == across representations: [1, {a: 1.5}] == [1.0, {a: 1.5}] *)
Example veq_mixed :
  veq (VList [VNum (I 1); VMap [(VStr [97], VNum (F (b64_of_bits 4609434218613702656)))]])
      (VList [VNum (F (b64_of_bits 4607182418800017408)); VMap [(VStr [97], VNum (F (b64_of_bits 4609434218613702656)))]]) = true.
Proof. vm_compute. reflexivity. Qed.

(* the panic of C14b on the model: {a, b, c}[0] = (b, _) *)
Example index_assign_witness :
  index_assign [(VStr [97], VNull); (VStr [98], VNull); (VStr [99], VNull)] 0 (VStr [98]) VNull = Panic.
Proof. vm_compute. reflexivity. Qed.

(* {1: 1, 2: 2} == {1.0: 1, 2: 2}; 0, 0.0 and -0.0 hash alike *)
Example veq_maps_mixed_keys :
    veq (VMap [(VNum (I 1), VNum (I 1)); (VNum (I 2), VNum (I 2))])
        (VMap [(w_k', VNum (I 1)); (VNum (I 2), VNum (I 2))]) = true /\
    hstream (VNum (I 0)) = hstream (VNum (F (b64_of_bits 9223372036854775808))) /\
    hstream (VNum (I 0)) = hstream (VNum (F (b64_of_bits 0))).
Proof. exact EqProofs.veq_maps_mixed_keys. Qed.
