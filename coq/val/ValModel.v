(* C14 — value model, part 1: numbers, tree-shaped values, equality, ordering,
   map keys and the order-preserving map.  Executable definitions only (no proofs),
   shaped like the Rust code they follow:

     crates/runtime/src/types/number.rs     KNumber: PartialEq / Ord / Hash (normalized f64 bits)
     crates/runtime/src/types/value_key.rs  ValueKey: PartialEq / Hash / PartialOrd
     crates/runtime/src/vm.rs               run_equal / run_not_equal / run_less .. /
                                            compare_value_ranges / compare_value_maps /
                                            run_index_assign (Map arm)
     crates/runtime/src/core_lib/map.rs     insert / remove (shift_remove) / extend / sort / get
     crates/runtime/src/core_lib/value_sort.rs  compare_values, sort_values
     indexmap 2.12 (third party)            contract: insert = update in place or append,
                                            lookups through hash then eq, single-entry fast
                                            path of get_index_of / shift_remove (eq only)

   Floats are Flocq binary64; `i64 as f64` is binary_normalize with round-to-nearest-even. *)
From Coq Require Import ZArith List Bool Lia.
From Flocq Require Import IEEE754.Binary IEEE754.Bits IEEE754.BinarySingleNaN.
Import ListNotations.
Open Scope Z_scope.

(* ------------------------------------------------------------------ numbers *)

Definition f64 := binary64.

(* `z as f64` for an i64 z *)
Definition i2f (z : Z) : f64 :=
  Binary.binary_normalize 53 1024 (eq_refl) (eq_refl) mode_NE z 0 false.

(* f64::partial_cmp: None iff one side is NaN *)
Definition fcmp (a b : f64) : option comparison := b64_compare a b.
Definition f_is_nan (a : f64) : bool := Binary.is_nan 53 1024 a.
(* f64::to_bits *)
Definition fbits (a : f64) : Z := bits_of_b64 a.
(* f64 `==` *)
Definition feq (a b : f64) : bool := match fcmp a b with Some Eq => true | _ => false end.

Inductive num := I (z : Z) | F (x : f64).

Definition i64_min : Z := -9223372036854775808.
Definition i64_max : Z := 9223372036854775807.
Definition in_i64 (z : Z) : bool := (i64_min <=? z) && (z <=? i64_max).

Definition num_is_nan (n : num) : bool := match n with F x => f_is_nan x | I _ => false end.

(* impl PartialEq for KNumber *)
Definition num_eq (a b : num) : bool :=
  match a, b with
  | F x, F y => feq x y
  | F x, I z => feq x (i2f z)
  | I z, F y => feq (i2f z) y
  | I x, I y => x =? y
  end.

(* the `result` of Ord::cmp before the NaN fallback *)
Definition num_partial (a b : num) : option comparison :=
  match a, b with
  | F x, F y => fcmp x y
  | F x, I z => fcmp x (i2f z)
  | I z, F y => fcmp (i2f z) y
  | I x, I y => Some (x ?= y)
  end.

(* impl Ord for KNumber *)
Definition num_cmp (a b : num) : comparison :=
  match num_partial a b with
  | Some c => c
  | None =>
      match num_is_nan a, num_is_nan b with
      | false, true => Lt
      | true, false => Gt
      | _, _ => Eq
      end
  end.

(* PartialOrd for KNumber is Some(cmp): the provided lt/le/gt/ge *)
Definition num_lt a b := match num_cmp a b with Lt => true | _ => false end.
Definition num_le a b := match num_cmp a b with Gt => false | _ => true end.
Definition num_gt a b := match num_cmp a b with Gt => true | _ => false end.
Definition num_ge a b := match num_cmp a b with Lt => false | _ => true end.

(* KNumber::to_bits: `n as u64` for integers *)
Definition num_bits (n : num) : Z :=
  match n with I z => z mod 18446744073709551616 | F x => fbits x end.

(* impl Hash for KNumber: the number as f64 (`n as f64` for integers), -0.0 normalized to 0.0
   (`if n == 0.0 { 0.0 } else { n }`), then write_u64(to_bits) *)
Definition fzero : f64 := Binary.B754_zero 53 1024 false.
Definition fnorm (x : f64) : f64 := if feq x fzero then fzero else x.
Definition num_hash_bits (n : num) : Z :=
  fbits (fnorm (match n with I z => i2f z | F x => x end)).

(* ------------------------------------------------------------------ values *)

Definition bytes := list Z.

Inductive val :=
| VNull
| VBool (b : bool)
| VNum (n : num)
| VStr (s : bytes)
| VRange (lo : option Z) (hi : option (Z * bool))
| VList (l : list val)
| VTuple (l : list val)
| VMap (m : list (val * val)).

Fixpoint bytes_eqb (a b : bytes) : bool :=
  match a, b with
  | [], [] => true
  | x :: a', y :: b' => (x =? y) && bytes_eqb a' b'
  | _, _ => false
  end.

(* str::cmp: lexicographic on bytes *)
Fixpoint bytes_cmp (a b : bytes) : comparison :=
  match a, b with
  | [], [] => Eq
  | [], _ :: _ => Lt
  | _ :: _, [] => Gt
  | x :: a', y :: b' => match x ?= y with Eq => bytes_cmp a' b' | c => c end
  end.

Definition optz_eqb (a b : option Z) : bool :=
  match a, b with
  | None, None => true
  | Some x, Some y => x =? y
  | _, _ => false
  end.

Definition hi_eqb (a b : option (Z * bool)) : bool :=
  match a, b with
  | None, None => true
  | Some (x, i), Some (y, j) => (x =? y) && Bool.eqb i j
  | _, _ => false
  end.

(* derived PartialEq of KRange on the canonical representation chosen by KRange::new *)
Definition range_eqb (lo1 : option Z) (hi1 : option (Z * bool)) (lo2 : option Z) (hi2 : option (Z * bool)) : bool :=
  optz_eqb lo1 lo2 && hi_eqb hi1 hi2.

(* --- map keys (ValueKey) --- *)

(* KValue::is_hashable *)
Fixpoint hashable (v : val) : bool :=
  match v with
  | VNull | VBool _ | VNum _ | VStr _ | VRange _ _ => true
  | VTuple l => (fix all (l : list val) := match l with [] => true | x :: r => hashable x && all r end) l
  | VList _ | VMap _ => false
  end.

(* impl PartialEq for ValueKey *)
Fixpoint key_eq (a b : val) : bool :=
  match a, b with
  | VNum x, VNum y => num_eq x y
  | VBool x, VBool y => Bool.eqb x y
  | VStr x, VStr y => bytes_eqb x y
  | VRange l1 h1, VRange l2 h2 => range_eqb l1 h1 l2 h2
  | VNull, VNull => true
  | VTuple x, VTuple y =>
      Nat.eqb (length x) (length y) &&
      (fix all (x y : list val) :=
         match x, y with
         | u :: x', w :: y' => key_eq u w && all x' y'
         | _, _ => true
         end) x y
  | _, _ => false
  end.

(* what ValueKey::hash feeds to the hasher, call by call *)
Inductive hword :=
| W64 (z : Z)        (* write_u64 / write_i64 / write_isize *)
| W8 (z : Z)         (* write_u8 *)
| WBytes (s : bytes) (* write(bytes) of a str, followed by W8 255 *).

Definition hword_eqb (a b : hword) : bool :=
  match a, b with
  | W64 x, W64 y => x =? y
  | W8 x, W8 y => x =? y
  | WBytes x, WBytes y => bytes_eqb x y
  | _, _ => false
  end.

Fixpoint hstream_eqb (a b : list hword) : bool :=
  match a, b with
  | [], [] => true
  | x :: a', y :: b' => hword_eqb x y && hstream_eqb a' b'
  | _, _ => false
  end.

Definition range_stream (lo : option Z) (hi : option (Z * bool)) : list hword :=
  match lo, hi with
  | None, None => [W64 0]
  | Some s, None => [W64 1; W64 s]
  | None, Some (e, i) => [W64 2; W64 e; W8 (if i then 1 else 0)]
  | Some s, Some (e, i) => [W64 3; W64 s; W64 e; W8 (if i then 1 else 0)]
  end.

(* impl Hash for ValueKey; KNumber::hash = write_u64 of the normalized f64 bits *)
Fixpoint hstream (v : val) : list hword :=
  match v with
  | VNull => []
  | VBool b => [W8 (if b then 1 else 0)]
  | VNum n => [W64 (num_hash_bits n)]
  | VStr s => [WBytes s; W8 255]
  | VRange lo hi => range_stream lo hi
  | VTuple l => (fix cat (l : list val) := match l with [] => [] | x :: r => hstream x ++ cat r end) l
  | VList _ | VMap _ => []
  end.

(* impl PartialOrd for ValueKey (always Some) *)
Fixpoint key_cmp (a b : val) : comparison :=
  match a, b with
  | VNull, VNull => Eq
  | VNull, _ => Lt
  | _, VNull => Gt
  | VNum x, VNum y => num_cmp x y
  | VStr x, VStr y => bytes_cmp x y
  | VTuple x, VTuple y =>
      match Nat.compare (length x) (length y) with
      | Eq =>
          (fix lex (x y : list val) :=
             match x, y with
             | u :: x', w :: y' => match key_cmp u w with Eq => lex x' y' | c => c end
             | _, _ => Eq
             end) x y
      | c => c
      end
  | _, _ => Eq
  end.

(* ------------------------------------------------------------------ the order-preserving map
   IndexMap<ValueKey, V, FxHasher> as an association list in entry order.  A lookup that goes
   through the hash table finds the first entry whose hash equals the probe's hash and whose key is
   `==` to it; equal hasher inputs give equal hashes, different inputs are taken to give different
   hashes (the hasher itself is outside the model). *)

Section MapOps.
  Context {V : Type}.
  Definition entries := list (val * V).

  Definition key_match (q k : val) : bool := hstream_eqb (hstream q) (hstream k) && key_eq q k.

  Fixpoint find_from (f : val -> bool) (m : entries) (i : nat) : option nat :=
    match m with
    | [] => None
    | (k, _) :: r => if f k then Some i else find_from f r (S i)
    end.

  (* the hash-table path *)
  Definition find_hashed (m : entries) (q : val) : option nat := find_from (key_match q) m 0.

  (* IndexMap::get_index_of: [] => None, [x] => eq only, _ => hash table *)
  Definition get_index_of (m : entries) (q : val) : option nat :=
    match m with
    | [] => None
    | [(k, _)] => if key_eq q k then Some 0%nat else None
    | _ => find_hashed m q
    end.

  Definition map_get (m : entries) (q : val) : option V :=
    match get_index_of m q with
    | Some i => option_map snd (nth_error m i)
    | None => None
    end.

  Fixpoint set_value (m : entries) (i : nat) (v : V) : entries :=
    match m, i with
    | [], _ => []
    | (k, _) :: r, O => (k, v) :: r
    | e :: r, S j => e :: set_value r j v
    end.

  (* IndexMap::insert_full: always through the hash table; an existing entry keeps its key *)
  Definition insert_full (m : entries) (k : val) (v : V) : nat * option V * entries :=
    match find_hashed m k with
    | Some i => (i, option_map snd (nth_error m i), set_value m i v)
    | None => (length m, None, m ++ [(k, v)])
    end.

  Definition map_insert (m : entries) (k : val) (v : V) : entries := snd (insert_full m k v).

  Fixpoint remove_nth (m : entries) (i : nat) : entries :=
    match m, i with
    | [], _ => []
    | _ :: r, O => r
    | e :: r, S j => e :: remove_nth r j
    end.

  (* IndexMap::shift_remove: [x] => eq only, [] => None, _ => hash table *)
  Definition shift_remove (m : entries) (q : val) : option V * entries :=
    match get_index_of m q with
    | Some i => (option_map snd (nth_error m i), remove_nth m i)
    | None => (None, m)
    end.

  (* Extend: for_each insert *)
  Definition map_extend (m other : entries) : entries :=
    fold_left (fun acc e => map_insert acc (fst e) (snd e)) other m.

  (* IndexMap::swap_remove_index: the last entry moves into the hole *)
  Definition swap_remove_index (m : entries) (i : nat) : entries :=
    match nth_error m i with
    | None => m
    | Some _ =>
        let n := length m in
        if Nat.eqb i (n - 1) then removelast m
        else match nth_error m (n - 1) with
             | Some e => removelast (firstn i m ++ e :: skipn (S i) m)
             | None => m
             end
    end.

  (* IndexMap::swap_indices panics when an index is out of bounds *)
  Definition swap_indices (m : entries) (i j : nat) : option entries :=
    match nth_error m i, nth_error m j with
    | Some a, Some b =>
        if Nat.eqb i j then Some m
        else
          let m1 := firstn i m ++ b :: skipn (S i) m in
          Some (firstn j m1 ++ a :: skipn (S j) m1)
    | _, _ => None
    end.

  Inductive outcome (A : Type) := Done (a : A) | Fail | Panic.
  Arguments Done {A} a.
  Arguments Fail {A}.
  Arguments Panic {A}.

  (* run_index_assign, Map arm, for an in-range index and a hashable key:
     swap_remove_index(i); insert(key, value); swap_indices(i, len - 1) *)
  Definition index_assign (m : entries) (i : nat) (k : val) (v : V) : outcome entries :=
    let n := length m in
    if Nat.ltb i n then
      let m1 := swap_remove_index m i in
      let m2 := map_insert m1 k v in
      match swap_indices m2 i (n - 1) with
      | Some m3 => Done m3
      | None => Panic
      end
    else Fail.

  (* map.sort(): IndexMap::sort_by (a stable sort) with ValueKey::partial_cmp on the keys;
     the sorting routine is a parameter *)
  Definition map_sort (sorter : (val * V -> val * V -> comparison) -> entries -> entries) (m : entries) : entries :=
    sorter (fun a b => key_cmp (fst a) (fst b)) m.
End MapOps.

Arguments Done {A} a.
Arguments Fail {A}.
Arguments Panic {A}.

(* stable insertion sort: the executable stand-in for slice::sort_by / IndexMap::sort_by *)
Section ISort.
  Context {A : Type} (cmp : A -> A -> comparison).
  Fixpoint ins (x : A) (l : list A) : list A :=
    match l with
    | [] => [x]
    | y :: r => match cmp x y with Gt => y :: ins x r | _ => x :: y :: r end
    end.
  (* elements are inserted from the right end; an element stops in front of the first one that is
     not smaller, so equal elements keep their original order *)
  Definition isort (l : list A) : list A := fold_right ins [] l.
End ISort.

(* ------------------------------------------------------------------ == != < <= > >= on values *)

(* run_equal (no meta maps, objects or functions in the model) *)
Fixpoint veq (a b : val) {struct a} : bool :=
  match a, b with
  | VNull, VNull => true
  | VNull, _ => false
  | _, VNull => false
  | VNum x, VNum y => num_eq x y
  | VBool x, VBool y => Bool.eqb x y
  | VStr x, VStr y => bytes_eqb x y
  | VRange l1 h1, VRange l2 h2 => range_eqb l1 h1 l2 h2
  | VList x, VList y =>
      (* compare_value_ranges *)
      Nat.eqb (length x) (length y) &&
      (fix all (x y : list val) :=
         match x, y with
         | u :: x', w :: y' => veq u w && all x' y'
         | _, _ => true
         end) x y
  | VTuple x, VTuple y =>
      Nat.eqb (length x) (length y) &&
      (fix all (x y : list val) :=
         match x, y with
         | u :: x', w :: y' => veq u w && all x' y'
         | _, _ => true
         end) x y
  | VMap x, VMap y =>
      (* compare_value_maps: every key of the left map is LOOKED UP in the right one *)
      Nat.eqb (length x) (length y) &&
      (fix all (x : list (val * val)) :=
         match x with
         | [] => true
         | (k, v) :: x' =>
             match map_get y k with
             | Some w => veq v w && all x'
             | None => false
             end
         end) x
  | _, _ => false
  end.

(* run_not_equal: its own copy of the case analysis in the Rust code *)
Definition vne (a b : val) : bool :=
  match a, b with
  | VNull, VNull => false
  | VNull, _ => true
  | _, VNull => true
  | VNum x, VNum y => negb (num_eq x y)
  | VBool x, VBool y => negb (Bool.eqb x y)
  | VStr x, VStr y => negb (bytes_eqb x y)
  | VRange l1 h1, VRange l2 h2 => negb (range_eqb l1 h1 l2 h2)
  | VList _, VList _ => negb (veq a b)
  | VTuple _, VTuple _ => negb (veq a b)
  | VMap _, VMap _ => negb (veq a b)
  | VMap _, _ => true
  | _, _ => true
  end.

Definition cmp_lt (c : comparison) := match c with Lt => true | _ => false end.
Definition cmp_le (c : comparison) := match c with Gt => false | _ => true end.
Definition cmp_gt (c : comparison) := match c with Gt => true | _ => false end.
Definition cmp_ge (c : comparison) := match c with Lt => false | _ => true end.

(* run_less / run_less_or_equal / run_greater / run_greater_or_equal: None = InvalidBinaryOp *)
Definition vlt (a b : val) : option bool :=
  match a, b with
  | VNum x, VNum y => Some (num_lt x y)
  | VStr x, VStr y => Some (cmp_lt (bytes_cmp x y))
  | _, _ => None
  end.
Definition vle (a b : val) : option bool :=
  match a, b with
  | VNum x, VNum y => Some (num_le x y)
  | VStr x, VStr y => Some (cmp_le (bytes_cmp x y))
  | _, _ => None
  end.
Definition vgt (a b : val) : option bool :=
  match a, b with
  | VNum x, VNum y => Some (num_gt x y)
  | VStr x, VStr y => Some (cmp_gt (bytes_cmp x y))
  | _, _ => None
  end.
Definition vge (a b : val) : option bool :=
  match a, b with
  | VNum x, VNum y => Some (num_ge x y)
  | VStr x, VStr y => Some (cmp_ge (bytes_cmp x y))
  | _, _ => None
  end.

(* value_sort::compare_values: `<` first, then `>` *)
Definition compare_values (a b : val) : option comparison :=
  match vlt a b with
  | Some true => Some Lt
  | Some false =>
      match vgt a b with
      | Some true => Some Gt
      | Some false => Some Eq
      | None => None
      end
  | None => None
  end.

Definition cv_total (a b : val) : comparison :=
  match compare_values a b with Some c => c | None => Eq end.

(* sort_values: an error in any comparison is reported after the sort (the order the slice is
   left in is then unspecified: None) *)
Fixpoint all_pairs_comparable (l : list val) : bool :=
  match l with
  | [] => true
  | x :: r => forallb (fun y => match compare_values x y, compare_values y x with Some _, Some _ => true | _, _ => false end) r
              && all_pairs_comparable r
  end.

Definition sort_values (sorter : (val -> val -> comparison) -> list val -> list val) (l : list val) : option (list val) :=
  match l with
  | [] | [_] => Some l   (* sort_by on fewer than two elements never calls the comparison *)
  | _ => if all_pairs_comparable l then Some (sorter cv_total l) else None
  end.
