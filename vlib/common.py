"""Shared machinery for the /verif checks: building (cargo, coq), evaluating
Coq terms for the correspondence check, evidence / replay files, verdicts."""
import concurrent.futures
import fcntl
import hashlib
import json
import os
import re
import shutil
import subprocess
import sys
import time

VERIF = os.path.dirname(os.path.dirname(os.path.abspath(__file__)))
REPO = os.environ.get("KOTO_REPO", "/repo")
BUILD = os.path.join(VERIF, "build")
COQ_SRC = os.path.join(VERIF, "coq")
HARNESS = os.path.join(VERIF, "harness")
EVIDENCE = os.path.join(VERIF, "evidence")
REPLAYS = os.path.join(VERIF, "replays")
NPROC = min(16, os.cpu_count() or 4)



def _coq_root():
    """Checks against /repo build the Coq units in place (/verif/coq).  Checks
    against another checkout (KOTO_REPO=..., used for mutation testing) work on
    a private mirror so that regenerated Gen*.v tables never disturb /verif/coq."""
    if os.path.realpath(REPO) == "/repo":
        return COQ_SRC
    tag = hashlib.sha1(os.path.realpath(REPO).encode()).hexdigest()[:8]
    dst = os.path.join(BUILD, "coq-" + tag)
    os.makedirs(dst, exist_ok=True)
    subprocess.run(["rsync", "-a", "--exclude", "Gen*.v", "--exclude", "cases_*", "--exclude", "*.vo", "--exclude", "*.vos",
                    "--exclude", "*.vok", "--exclude", "*.glob", "--exclude", ".*.aux", "--exclude", "Makefile*",
                    "--exclude", ".Makefile*", "--exclude", "_CoqProject", COQ_SRC + "/", dst + "/"], check=True)
    return dst


COQ = _coq_root()

ENV = dict(os.environ)
ENV.update({"CARGO_NET_OFFLINE": "true", "CARGO_TERM_COLOR": "never"})

FORBIDDEN_RE = re.compile(
    r"\b(Admitted|admit|Axiom|Axioms|Parameter|Parameters|Conjecture|Conjectures|Hypothesis|Hypotheses|Variable|Variables"
    r"|Admit\s+Obligations|bypass_check|Unset\s+Guard\s+Checking|Unset\s+Positivity\s+Checking"
    r"|Unset\s+Universe\s+Checking|type-in-type|impredicative-set)\b")

# axioms of the Coq standard library that theorems are allowed to depend on
# (each one that actually occurs is listed in the evidence's trusted_base)
ALLOWED_AXIOMS = {
    "ClassicalDedekindReals.sig_forall_dec",
    "ClassicalDedekindReals.sig_not_dec",
    "FunctionalExtensionality.functional_extensionality_dep",
    "Classical_Prop.classic",
}


def sh(cmd, cwd=None, timeout=None, env=None, input=None):
    """run a command, return (rc, stdout+stderr). rc=124 on timeout."""
    try:
        p = subprocess.run(cmd, cwd=cwd, env=env or ENV, timeout=timeout, input=input,
                           stdout=subprocess.PIPE, stderr=subprocess.STDOUT, text=True,
                           shell=isinstance(cmd, str), errors="replace")
        return p.returncode, p.stdout
    except subprocess.TimeoutExpired as e:
        out = e.stdout or ""
        if isinstance(out, bytes):
            out = out.decode("utf-8", "replace")
        return 124, out + "\n[timeout]"


class Lock:
    def __init__(self, name):
        os.makedirs(BUILD, exist_ok=True)
        self.path = os.path.join(BUILD, f".lock-{name}")

    def __enter__(self):
        self.f = open(self.path, "w")
        fcntl.flock(self.f, fcntl.LOCK_EX)
        return self

    def __exit__(self, *a):
        fcntl.flock(self.f, fcntl.LOCK_UN)
        self.f.close()


# ---------------------------------------------------------------------------
# Rust harness


def repo_tag():
    return "repo" if os.path.realpath(REPO) == "/repo" else hashlib.sha1(os.path.realpath(REPO).encode()).hexdigest()[:8]


def harness_prepare():
    """The harness crate is instantiated per koto checkout (KOTO_REPO, default
    /repo): build/harness-<tag>/ holds a Cargo.toml generated from
    harness/Cargo.toml.in with path dependencies into that checkout, the
    checkout's Cargo.lock (so the offline build resolves the same cached crate
    versions) and a symlink to harness/src."""
    d = os.path.join(BUILD, "harness-" + repo_tag())
    os.makedirs(d, exist_ok=True)
    toml = open(os.path.join(HARNESS, "Cargo.toml.in")).read().replace("@REPO@", os.path.realpath(REPO))
    p = os.path.join(d, "Cargo.toml")
    if not os.path.exists(p) or open(p).read() != toml:
        open(p, "w").write(toml)
    lock_dst = os.path.join(d, "Cargo.lock")
    if not os.path.exists(lock_dst):
        shutil.copy(os.path.join(REPO, "Cargo.lock"), lock_dst)
    link = os.path.join(d, "src")
    if not os.path.islink(link):
        os.symlink(os.path.join(HARNESS, "src"), link)
    return d


def build_harness(bin_name, features=None, release=False, target_suffix=""):
    """cargo build one harness binary against the CURRENT working tree of the
    koto checkout (path dependencies) with the verification hooks enabled.
    returns (path or None, log)"""
    tag = repo_tag() + target_suffix
    with Lock("cargo-" + tag):
        crate = harness_prepare()
        target = os.path.join(BUILD, "cargo-" + tag)
        cmd = ["cargo", "build", "--offline", "--bin", bin_name, "--target-dir", target]
        if release:
            cmd.append("--release")
        if features:
            cmd += ["--no-default-features", "--features", ",".join(features)]
        env = dict(ENV)
        env["RUSTFLAGS"] = (env.get("RUSTFLAGS", "") + " --cfg koto_verif").strip()
        rc, out = sh(cmd, cwd=crate, env=env, timeout=1800)
        if rc != 0:
            return None, out
        return os.path.join(target, "release" if release else "debug", bin_name), out


# ---------------------------------------------------------------------------
# Coq projects: one directory per unit under coq/, logical root KV.<unit>


def unit_deps(unit):
    p = os.path.join(COQ, unit, "DEPS")
    if os.path.exists(p):
        return [l.strip() for l in open(p) if l.strip() and not l.startswith("#")]
    return []


def unit_q_flags(unit):
    flags = ["-Q", os.path.join(COQ, unit), f"KV.{unit}"]
    for d in unit_deps(unit):
        flags += unit_q_flags(d)
    return flags


def coq_project(unit):
    d = os.path.join(COQ, unit)
    vs = sorted(f for f in os.listdir(d) if f.endswith(".v") and not f.startswith("cases_"))
    lines = [f"-Q . KV.{unit}"]
    for dep in unit_deps(unit):
        fl = unit_q_flags(dep)
        for i in range(0, len(fl), 3):
            lines.append(f"-Q {os.path.relpath(fl[i+1], d)} {fl[i+2]}")
    lines += vs
    content = "\n".join(lines) + "\n"
    p = os.path.join(d, "_CoqProject")
    old = open(p).read() if os.path.exists(p) else None
    if old != content:
        with open(p, "w") as f:
            f.write(content)
        sh(["coq_makefile", "-f", "_CoqProject", "-o", "Makefile"], cwd=d)
    elif not os.path.exists(os.path.join(d, "Makefile")):
        sh(["coq_makefile", "-f", "_CoqProject", "-o", "Makefile"], cwd=d)


def coq_build(unit, targets=None, timeout=1500):
    """full .vo build (never -vos) of a unit (its dependencies first).
    returns (ok, log)"""
    log = ""
    for dep in unit_deps(unit):
        ok, l = coq_build(dep, None, timeout)
        log += l
        if not ok:
            return False, log
    with Lock("coq-" + unit):
        coq_project(unit)
        d = os.path.join(COQ, unit)
        cmd = ["make", f"-j{NPROC}"] + ([t for t in targets] if targets else [])
        rc, out = sh(cmd, cwd=d, timeout=timeout)
        return rc == 0, log + out


def coq_sources(unit):
    d = os.path.join(COQ, unit)
    return [os.path.join(d, f) for f in sorted(os.listdir(d)) if f.endswith(".v")]


def strip_coq_comments(text):
    out = []
    depth = 0
    i = 0
    while i < len(text):
        if text.startswith("(*", i):
            depth += 1
            i += 2
        elif text.startswith("*)", i) and depth > 0:
            depth -= 1
            i += 2
        else:
            if depth == 0:
                out.append(text[i])
            i += 1
    return "".join(out)


def forbidden_scan(unit, allow_section_vars=True):
    """grep for anything that would declare an axiom or switch off a check.
    `Variable`/`Hypothesis` are allowed only inside a Section (checked by
    tracking Section/End nesting)."""
    hits = []
    for p in coq_sources(unit):
        text = strip_coq_comments(open(p, encoding="utf-8").read())
        depth = 0
        for n, line in enumerate(text.split("\n"), 1):
            if re.match(r"\s*Section\s", line):
                depth += 1
            for m in FORBIDDEN_RE.finditer(line):
                w = m.group(1)
                if w.split()[0] in ("Variable", "Variables", "Hypothesis", "Hypotheses") and depth > 0 and allow_section_vars:
                    continue
                hits.append(f"{os.path.basename(p)}:{n}: {w}")
            if re.match(r"\s*End\s", line) and depth > 0:
                depth -= 1
    return hits


def parse_assumptions(log):
    """parse the output of `Print Assumptions` commands found in a coqc log.
    returns (closed_count, axioms:set)"""
    closed = len(re.findall(r"Closed under the global context", log))
    axioms = set()
    in_block = False
    for line in log.split("\n"):
        if line.strip() == "Axioms:":
            in_block = True
            continue
        if not in_block:
            continue
        if line.startswith((" ", "\t")) and line.strip():
            continue            # continuation of a type
        m = re.match(r"^([A-Za-z_][\w.']*)\s*(:.*)?$", line)
        if m and line.strip() != "Axioms:":
            axioms.add(m.group(1))
        else:
            in_block = False
    return closed, axioms


def check_props_file(unit, props_file, pinned):
    """(Re)compile coq/<unit>/<props_file>.v from scratch so that its Print
    Assumptions output is captured; verify every pinned theorem name is stated
    there and closed by a proof; returns dict."""
    d = os.path.join(COQ, unit)
    vo = os.path.join(d, props_file + ".vo")
    if os.path.exists(vo):
        os.remove(vo)
    ok, log = coq_build(unit, [props_file + ".vo"])
    res = {"ok": ok, "log": log, "missing": [], "axioms": [], "bad_axioms": [], "closed": 0}
    if not ok:
        return res
    closed, axioms = parse_assumptions(log)
    res["closed"] = closed
    res["axioms"] = sorted(axioms)
    res["bad_axioms"] = sorted(a for a in axioms if a not in ALLOWED_AXIOMS)
    text = strip_coq_comments(open(os.path.join(d, props_file + ".v"), encoding="utf-8").read())
    for name in pinned:
        if not re.search(r"\b(Theorem|Lemma|Corollary|Example)\s+" + re.escape(name) + r"\b", text):
            res["missing"].append(name)
        if not re.search(r"Print\s+Assumptions\s+" + re.escape(name) + r"\s*\.", text):
            res["missing"].append("Print Assumptions " + name)
    return res


# ---------------------------------------------------------------------------
# Evaluating model terms inside Coq (correspondence): every term must reduce to
# nested lists / tuples of N or Z numbers; one term per case.

_num_suffix = re.compile(r"%[A-Za-z_]+")


def parse_coq_value(s):
    """'[[1; 2]; [3]]' / '(1, [2; 3])' -> nested python lists"""
    s = _num_suffix.sub("", s)
    s = s.replace(";", ",").replace("(", "[").replace(")", "]")
    s = re.sub(r"\btrue\b", "1", s)
    s = re.sub(r"\bfalse\b", "0", s)
    return json.loads(s)


def _run_coq_shard(args):
    unit, idx, header, terms, workdir = args
    path = os.path.join(workdir, f"cases_{idx}.v")
    with open(path, "w") as f:
        f.write(header + "\n")
        f.write("Set Printing Width 2000000.\nSet Printing Depth 10000000.\n")
        for i, t in enumerate(terms):
            f.write(f"Definition case_{i} := {t}.\n")
            f.write(f"Eval vm_compute in case_{i}.\n")
    cmd = ["coqc", "-noglob"] + unit_q_flags(unit) + ["-Q", workdir, f"KVcases{idx}", path]
    rc, out = sh(cmd, cwd=workdir, timeout=3600)
    if rc == 124:
        # a timeout says something about the machine (load), not about koto: try once more, alone
        rc, out = sh(cmd, cwd=workdir, timeout=10800)
    if rc != 0:
        return None, out
    vals = []
    # each Eval prints "     = <value>\n     : <type>"
    for m in re.finditer(r"^\s*= (.*?)\n\s*: ", out, re.S | re.M):
        vals.append(parse_coq_value(" ".join(m.group(1).split())))
    if len(vals) != len(terms):
        return None, f"expected {len(terms)} values, parsed {len(vals)}\n" + out[:2000]
    return vals, out


def coq_eval(unit, header, terms, tag="eval", per_shard=400):
    """evaluate `terms` (Coq source strings) with vm_compute against the
    compiled unit; shards across NPROC coqc processes.  returns list of parsed
    values (or raises RuntimeError with the coqc output)."""
    if not terms:
        return []
    workdir = os.path.join(BUILD, "cases", f"{tag}-{os.getpid()}")
    shutil.rmtree(workdir, ignore_errors=True)
    os.makedirs(workdir)
    nshards = max(1, min(NPROC * 4, (len(terms) + per_shard - 1) // per_shard))
    size = (len(terms) + nshards - 1) // nshards
    shards = [(unit, i, header, terms[i * size:(i + 1) * size], workdir) for i in range(nshards)]
    shards = [s for s in shards if s[3]]
    out_vals = []
    with concurrent.futures.ThreadPoolExecutor(max_workers=NPROC) as ex:
        for vals, out in ex.map(_run_coq_shard, shards):
            if vals is None:
                raise RuntimeError("coq evaluation failed:\n" + out[-4000:])
            out_vals += vals
    shutil.rmtree(workdir, ignore_errors=True)
    return out_vals


def coq_list(nums):
    return "[" + "; ".join(str(int(n)) for n in nums) + "]"


# ---------------------------------------------------------------------------
# results


class Check:
    """collects what one run of one property's check did"""

    def __init__(self, pid, tier, seed, level):
        self.pid = pid
        self.tier = tier
        self.seed = seed
        # the evidence schema knows no "partial" level: a partial proof is reported as
        # level "proof" with its scope spelled out in coverage.claim_scope / explanation
        self.claim_scope = "partial" if level == "partial" else "as stated in MANIFEST level_claimed"
        self.level = level if level in ("exploration", "fault_enumeration", "model_checking", "proof",
                                        "translation_validation", "other") else "proof"
        self.t0 = time.time()
        self.obligations = []      # (name, ok, detail)
        self.violations = []       # (replay_path, no_input_found)
        self.known_seen = []       # strings
        self.coverage = {}
        self.assumptions = []
        self.notes = []
        self.evaluations = 0
        self.samples = []
        self.nontrivial = set()

    def oblige(self, name, ok, detail=""):
        self.obligations.append((name, bool(ok), detail))

    def log(self, msg):
        print(f"[{self.pid}] {msg}", flush=True)

    def count_case(self, case_repr, nontrivial):
        self.evaluations += 1
        if nontrivial:
            self.nontrivial.add(hashlib.sha1(case_repr.encode("utf-8", "replace")).digest()[:8])
        if len(self.samples) < 5 and nontrivial:
            self.samples.append(case_repr[:300])

    def replay_file(self, name, payload):
        rdir = REPLAYS if repo_tag() == "repo" else os.path.join(BUILD, "replays-" + repo_tag())
        os.makedirs(rdir, exist_ok=True)
        path = os.path.join(rdir, f"{self.pid}-{name}.json")
        payload = dict(payload)
        payload.setdefault("property", self.pid)
        payload.setdefault("seed", self.seed)
        with open(path, "w") as f:
            json.dump(payload, f, indent=1, ensure_ascii=False)
        return path

    def violation(self, name, payload, no_input=False):
        path = self.replay_file(name, payload)
        self.violations.append((path, no_input))
        return path

    def known(self, what):
        if what not in self.known_seen:
            self.known_seen.append(what)

    def finish(self, rule, explanation="", trusted_base=None, checker_cmd="", extra=None):
        wall = time.time() - self.t0
        nob = len(self.obligations)
        ndis = sum(1 for o in self.obligations if o[1])
        cov = {
            "obligations": nob,
            "discharged": ndis,
            "obligation_names": [f"{'ok' if o[1] else 'BROKEN'} {o[0]}" for o in self.obligations],
            "checker_cmd": checker_cmd or "make (coq_makefile, full .vo) in /verif/coq/<unit>; coqc 8.16.1",
            "trusted_base": trusted_base or [],
            "evaluations": self.evaluations,
            "distinct_nontrivial": len(self.nontrivial),
            "rule": rule,
            "samples": self.samples or ["(none)"],
            "explanation": explanation,
            "known_findings_seen": self.known_seen,
            "notes": self.notes,
            "claim_scope": self.claim_scope,
        }
        cov.update(self.coverage)
        if extra:
            cov.update(extra)
        ev = {
            "property_id": self.pid, "tier": self.tier, "seed": self.seed, "level": self.level,
            "coverage": cov, "assumptions": self.assumptions, "wall_s": round(wall, 2),
            "violations": len(self.violations),
        }
        # evidence/ describes runs against /repo only; runs against another checkout
        # (KOTO_REPO=..., mutation testing) write theirs under build/
        evdir = EVIDENCE if repo_tag() == "repo" else os.path.join(BUILD, "evidence-" + repo_tag())
        os.makedirs(evdir, exist_ok=True)
        with open(os.path.join(evdir, f"{self.pid}.json"), "w") as f:
            json.dump(ev, f, indent=1, ensure_ascii=False)
        for k in self.known_seen:
            print(f"KNOWN-FINDING: property={self.pid} {k}")
        seen = set()
        for path, no_input in self.violations:
            if path in seen:
                continue
            seen.add(path)
            print(f"VIOLATION property={self.pid} replay={path}" + (" no-failing-input-found" if no_input else ""))
        print(f"[{self.pid}] obligations {ndis}/{nob}, cases {self.evaluations} "
              f"({len(self.nontrivial)} distinct non-trivial), {wall:.1f}s, "
              f"{'FAIL' if self.violations else 'ok'}", flush=True)
        return 1 if self.violations else 0


def load_known_findings(pid):
    p = os.path.join(VERIF, "known_findings.json")
    if not os.path.exists(p):
        return []
    data = json.load(open(p))
    return [e for e in data.get("findings", []) if e.get("property") == pid and e.get("status") == "open"]


class Rng:
    """splitmix64: every random choice of a run derives from VERIF_SEED"""

    def __init__(self, seed):
        self.s = (seed * 0x9E3779B97F4A7C15 + 0x1234567) & 0xFFFFFFFFFFFFFFFF

    def next(self):
        self.s = (self.s + 0x9E3779B97F4A7C15) & 0xFFFFFFFFFFFFFFFF
        z = self.s
        z = ((z ^ (z >> 30)) * 0xBF58476D1CE4E5B9) & 0xFFFFFFFFFFFFFFFF
        z = ((z ^ (z >> 27)) * 0x94D049BB133111EB) & 0xFFFFFFFFFFFFFFFF
        return z ^ (z >> 31)

    def below(self, n):
        return self.next() % n

    def choice(self, xs):
        return xs[self.below(len(xs))]

    def chance(self, num, den):
        return self.below(den) < num
