"""./check --setup : build everything from files on disk, offline."""
import os
import sys

from vlib import common as C
from tools import k2v


def run():
    rc = 0
    # translator outputs (needed before the Coq units compile)
    for name, args in k2v.DEFAULT_OUTPUTS.items():
        try:
            k2v.GENERATORS[name](*[os.path.join(C.VERIF, a) for a in args])
            print(f"[setup] k2v {name}: ok")
        except k2v.GenError as e:
            print(f"[setup] k2v {name}: {e}")
    # rust harness: all binaries
    with C.Lock("cargo-" + C.repo_tag()):
        crate = C.harness_prepare()
        env = dict(C.ENV)
        env["RUSTFLAGS"] = "--cfg koto_verif"
        r, out = C.sh(["cargo", "build", "--offline", "--bins", "--target-dir",
                       os.path.join(C.BUILD, "cargo-" + C.repo_tag())], cwd=crate, env=env, timeout=3600)
    print(out[-1500:])
    if r != 0:
        print("[setup] cargo build failed")
        rc = 1
    # coq units
    for unit in sorted(os.listdir(C.COQ)):
        if not os.path.isdir(os.path.join(C.COQ, unit)):
            continue
        ok, log = C.coq_build(unit)
        print(f"[setup] coq unit {unit}: {'ok' if ok else 'FAILED'}")
        if not ok:
            print(log[-3000:])
            rc = 1
    return rc
