"""./check --setup : build everything from files on disk, offline."""
import os
import sys

from vlib import common as C
from tools import k2v


def run():
    rc = 0
    # translator outputs (needed before the Coq units compile)
    import importlib
    mods = [k2v]
    for f in sorted(os.listdir(os.path.join(C.VERIF, "tools"))):
        if f.startswith("k2v_") and f.endswith(".py"):
            mods.append(importlib.import_module("tools." + f[:-3]))
    for m in mods:
        for name, args in m.DEFAULT_OUTPUTS.items():
            try:
                # generated Coq files go to the (possibly mirrored) Coq root
                outs = [os.path.join(C.COQ, a[len("coq/"):]) if a.startswith("coq/") else os.path.join(C.VERIF, a)
                        for a in args]
                m.GENERATORS[name](*outs)
                print(f"[setup] k2v {name}: ok")
            except k2v.GenError as e:
                print(f"[setup] k2v {name}: {e}")
    # rust harness: all binaries
    with C.Lock("cargo-" + C.repo_tag()):
        crate = C.harness_prepare()
        env = dict(C.ENV)
        env["RUSTFLAGS"] = "--cfg koto_verif"
        r, out = C.sh(["cargo", "build", "--offline", "--bins", "--target-dir",
                       os.path.join(C.BUILD, "cargo-" + C.repo_tag())], cwd=crate, env=env, timeout=3600)
    print(out[-1500:])
    if r != 0:
        print("[setup] cargo build failed")
        rc = 1
    # coq units
    for unit in sorted(os.listdir(C.COQ)):
        if not os.path.isdir(os.path.join(C.COQ, unit)):
            continue
        ok, log = C.coq_build(unit)
        print(f"[setup] coq unit {unit}: {'ok' if ok else 'FAILED'}")
        if not ok:
            print(log[-3000:])
            rc = 1
    return rc
