#!/usr/bin/env python3
"""k2v for unit `locks` (C19): extract, from the TEXT of each core-library arm in
crates/runtime/src/core_lib/{list,map}.rs, the container borrows in textual order:
  mode    Ex for `.data_mut()`, Sh for `.data()` and for the KList/KMap helpers that borrow
          internally (`l.len()`, `m.is_empty()`, `map.get(..)`)
  in_loop whether the borrow expression sits INSIDE THE BODY of a `for`/`while`/`loop` of the arm
          (a borrow in a `for` header is evaluated once, before the first iteration)
The table goes to coq/locks/GenBorrows.v and must equal the pinned copy in LocksTable.v
(theorem borrow_pins_match): "one write borrow spans the whole operation" is thereby tied to the
source — a borrow that moves into a loop body breaks the obligation."""
import json
import os
import re

from tools.k2v import GenError, matching_brace, read, write_if_changed

LIST_RS = "crates/runtime/src/core_lib/list.rs"
MAP_RS = "crates/runtime/src/core_lib/map.rs"

# (table function, file, add_fn name | "fn <name>", arm pattern (text up to `=>`, whitespace-insensitive) | None = whole body)
PINS = [
    ("L_clear", LIST_RS, "clear", "(KValue::List(l), [])"),
    ("L_contains", LIST_RS, "contains", "(KValue::List(l), [value])"),
    ("L_extend_list", LIST_RS, "extend", "(KValue::List(l), [KValue::List(other)])"),
    ("L_extend_tuple", LIST_RS, "extend", "(KValue::List(l), [KValue::Tuple(other)])"),
    ("L_extend_gen", LIST_RS, "extend", "(KValue::List(l), [iterable]) if iterable.is_iterable()"),
    ("L_fill", LIST_RS, "fill", "(KValue::List(l), [value])"),
    ("L_first", LIST_RS, "first", "(KValue::List(l), [])"),
    ("L_get", LIST_RS, "get", None),
    ("L_insert", LIST_RS, "insert", "(KValue::List(l), [KValue::Number(n), value])"),
    ("L_is_empty", LIST_RS, "is_empty", "(KValue::List(l), [])"),
    ("L_last", LIST_RS, "last", "(KValue::List(l), [])"),
    ("L_pop", LIST_RS, "pop", "(KValue::List(l), [])"),
    ("L_push", LIST_RS, "push", "(KValue::List(l), [value])"),
    ("L_remove", LIST_RS, "remove", "(KValue::List(l), [KValue::Number(n)])"),
    ("L_resize", LIST_RS, "resize", "(KValue::List(l), [KValue::Number(n)])"),
    ("L_resize", LIST_RS, "resize", "(KValue::List(l), [KValue::Number(n), value])"),
    ("L_resize_with", LIST_RS, "resize_with", "(KValue::List(l), [KValue::Number(n), f]) if f.is_callable()"),
    ("L_retain_fn", LIST_RS, "retain", "(KValue::List(l), [f]) if f.is_callable()"),
    ("L_retain_value", LIST_RS, "retain", "(KValue::List(l), [value])"),
    ("L_reverse", LIST_RS, "reverse", "(KValue::List(l), [])"),
    ("L_sort", LIST_RS, "sort", "(KValue::List(l), [])"),
    ("L_sort_by", LIST_RS, "sort", "(KValue::List(l), [f]) if f.is_callable()"),
    ("L_swap", LIST_RS, "swap", "(KValue::List(a), [KValue::List(b)])"),
    ("L_to_tuple", LIST_RS, "to_tuple", "(KValue::List(l), [])"),
    ("L_transform", LIST_RS, "transform", "(KValue::List(l), [f]) if f.is_callable()"),
    ("M_clear", MAP_RS, "clear", "(KValue::Map(m), [])"),
    ("M_contains_key", MAP_RS, "contains_key", "(KValue::Map(m), [key])"),
    ("M_extend_map", MAP_RS, "extend", "(KValue::Map(m), [KValue::Map(other)])"),
    ("M_extend_gen", MAP_RS, "extend", "(KValue::Map(m), [iterable]) if iterable.is_iterable()"),
    ("M_get", MAP_RS, "get", None),
    ("M_get_index", MAP_RS, "get_index", None),
    ("M_insert", MAP_RS, "insert", "(KValue::Map(m), [key])"),
    ("M_insert", MAP_RS, "insert", "(KValue::Map(m), [key, value])"),
    ("M_is_empty", MAP_RS, "is_empty", "(KValue::Map(m), [])"),
    ("M_remove", MAP_RS, "remove", "(KValue::Map(m), [key])"),
    ("M_sort", MAP_RS, "sort", "(KValue::Map(m), [])"),
    ("M_sort_by", MAP_RS, "sort", "(KValue::Map(m), [f]) if f.is_callable()"),
    ("M_update", MAP_RS, "fn do_map_update", None),
]

BORROW_RE = re.compile(r"\.\s*data_mut\s*\(\s*\)|\.\s*data\s*\(\s*\)|\b(?:l|m|map|list)\s*\.\s*(?:len|is_empty|get)\s*\(")
LOOP_RE = re.compile(r"\b(for|while|loop)\b")


def strip_comments(text):
    return re.sub(r"//[^\n]*", lambda m: " " * len(m.group(0)), text)


def fn_region(text, name, rel):
    if name.startswith("fn "):
        m = re.search(r"\bfn\s+" + re.escape(name[3:]) + r"\s*\(", text)
        if not m:
            raise GenError(f"{rel}: function {name[3:]} not found")
        o = text.index("{", text.index(")", m.end()))
        # the body brace is the first `{` after the return type
        o = text.index("{", text.index("->", m.end())) if "->" in text[m.end():text.index("{", m.end()) + 200] else o
    else:
        m = re.search(r'result\.add_fn\(\s*"' + re.escape(name) + r'"\s*,\s*\|ctx\|', text)
        if not m:
            raise GenError(f'{rel}: add_fn("{name}") not found')
        o = text.index("{", m.end())
    c = matching_brace(text, o)
    return text[o:c + 1]


def norm(s):
    return re.sub(r"\s+", "", s)


def arm_body(region, pattern, rel, name):
    """the body of the match arm whose pattern (text before `=>`) equals `pattern` modulo whitespace"""
    want = norm(pattern)
    for m in re.finditer(r"=>", region):
        # pattern text: back to the previous `,` / `{` at the start of the arm (a line that starts the arm)
        start = region.rfind("\n", 0, m.start())
        # multi-line patterns: walk back while the accumulated text does not yet start with `(`
        pat = region[start:m.start()]
        k = start
        while norm(pat) and not norm(pat).startswith("(") and k > 0:
            k = region.rfind("\n", 0, k)
            pat = region[k:m.start()]
        if norm(pat) != want:
            continue
        i = m.end()
        while region[i].isspace():
            i += 1
        if region[i] == "{":
            return region[i:matching_brace(region, i) + 1]
        # expression arm: up to the `,` at depth 0
        depth = 0
        j = i
        while j < len(region):
            ch = region[j]
            if ch in "([{":
                depth += 1
            elif ch in ")]}":
                if depth == 0:
                    break
                depth -= 1
            elif ch == "," and depth == 0:
                break
            j += 1
        return region[i:j]
    raise GenError(f'{rel}: add_fn("{name}") has no arm `{pattern} =>`')


def loop_body_spans(body):
    """(start, end) of the bodies of for/while/loop statements"""
    spans = []
    for m in LOOP_RE.finditer(body):
        # the body brace: first `{` at paren/bracket depth 0 after the keyword
        depth = 0
        i = m.end()
        while i < len(body):
            ch = body[i]
            if ch in "([":
                depth += 1
            elif ch in ")]":
                depth -= 1
            elif ch == "{" and depth == 0:
                break
            elif ch == ";" and depth == 0:
                i = len(body)
                break
            i += 1
        if i >= len(body):
            continue
        spans.append((i, matching_brace(body, i)))
    return spans


def scan(body):
    spans = loop_body_spans(body)
    out = []
    for m in BORROW_RE.finditer(body):
        mode = "Ex" if "data_mut" in m.group(0) else "Sh"
        in_loop = any(a < m.start() < b for a, b in spans)
        out.append((mode, in_loop))
    return out


def gen_borrows(out_v, out_json):
    rows = []
    texts = {}
    for fn, rel, name, pattern in PINS:
        if rel not in texts:
            texts[rel] = strip_comments(read(rel))
        region = fn_region(texts[rel], name, rel)
        body = region if pattern is None else arm_body(region, pattern, rel, name)
        rows.append((fn, name, pattern, scan(body)))
    lines = ["(* GENERATED by tools/k2v_locks.py from core_lib/list.rs and core_lib/map.rs — do not edit *)",
             "From Coq Require Import List Bool.", "From KV.locks Require Import Locks LocksTable.", "Import ListNotations.", "",
             "Definition gen_borrows : list pin :=", "  ["]
    ents = []
    for fn, name, pattern, sc in rows:
        ents.append(f"    ({fn}, [" + "; ".join(f"({m}, {'true' if b else 'false'})" for m, b in sc) + "])"
                    + f"   (* {name}: {pattern or 'whole body'} *)")
    # the comment must come after the separator
    body = []
    for i, e in enumerate(ents):
        code, comment = e.split("   (*", 1)
        body.append(code + (";" if i < len(ents) - 1 else "") + "   (*" + comment)
    lines += body
    lines += ["  ].", ""]
    write_if_changed(out_v, "\n".join(lines))
    info = {"rows": [{"fn": fn, "add_fn": name, "arm": pattern, "borrows": sc} for fn, name, pattern, sc in rows]}
    os.makedirs(os.path.dirname(out_json), exist_ok=True)
    with open(out_json, "w") as f:
        json.dump(info, f, indent=1)
    return info, out_v


GENERATORS = {"locks_borrows": gen_borrows}
DEFAULT_OUTPUTS = {"locks_borrows": ("coq/locks/GenBorrows.v", "build/gen/locks_borrows.json")}

if __name__ == "__main__":
    import sys
    info, _ = gen_borrows(sys.argv[1] if len(sys.argv) > 1 else "/verif/coq/locks/GenBorrows.v", "/verif/build/gen/locks_borrows.json")
    for r in info["rows"]:
        print(r["fn"], r["borrows"])
