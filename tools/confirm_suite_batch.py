#!/usr/bin/env python3
"""Run koto's whole test suite on each seeded change, one after the other in ONE scratch worktree
(incremental builds):  tools/confirm_suite_batch.py <seed-dir> ...
Updates <seed-dir>/confirm.json (tests_pass, test_suite). The worktree is removed at the end."""
import json
import os
import shutil
import subprocess
import sys


def sh(cmd, **kw):
    return subprocess.run(cmd, shell=True, stdout=subprocess.PIPE, stderr=subprocess.STDOUT, text=True, **kw)


wt = "/tmp/wt-suite-batch"
sh(f"git -C /repo worktree remove --force {wt}")
shutil.rmtree(wt, ignore_errors=True)
r = sh(f"git -C /repo worktree add --detach {wt} HEAD")
try:
    for seed in sys.argv[1:]:
        seed = os.path.abspath(seed)
        cj = os.path.join(seed, "confirm.json")
        out = json.load(open(cj)) if os.path.exists(cj) else {}
        if out.get("tests_pass") is True:
            continue
        r = sh(f"git -C {wt} apply {seed}/patch.diff")
        if r.returncode != 0:
            out["tests_pass"] = False
            out["test_suite"] = ["patch does not apply: " + r.stdout[-300:]]
        else:
            r = sh("cargo nextest run --workspace --no-fail-fast --offline --test-threads 8 --build-jobs 12 2>&1 | tail -4", cwd=wt)
            out["test_suite"] = r.stdout.strip().splitlines()[-2:] if r.stdout.strip() else []
            out["tests_pass"] = "1099 passed" in r.stdout and "failed" not in r.stdout.split("Summary")[-1]
            sh(f"git -C {wt} apply -R {seed}/patch.diff")
            sh(f"git -C {wt} checkout -- .")
        json.dump(out, open(cj, "w"), indent=1)
        print(os.path.basename(seed), out["tests_pass"], out.get("test_suite"))
finally:
    sh(f"git -C /repo worktree remove --force {wt}")
    shutil.rmtree(wt, ignore_errors=True)
