#!/usr/bin/env python3
"""Confirm a seeded change independently of the agent that wrote it:
  tools/confirm_seed.py <seed-dir>
applies patch.diff to a scratch worktree of /repo HEAD, builds the CLI there, runs the
demonstration (demo.koto) with the unchanged and the changed build, runs koto's whole test
suite on the changed tree, writes <seed-dir>/confirm.json and removes the worktree."""
import json
import os
import shutil
import subprocess
import sys


def sh(cmd, **kw):
    return subprocess.run(cmd, shell=True, stdout=subprocess.PIPE, stderr=subprocess.STDOUT, text=True, **kw)


seed = os.path.abspath(sys.argv[1])
name = os.path.basename(seed.rstrip("/"))
wt = f"/tmp/wt-confirm-{name}"
sh(f"git -C /repo worktree remove --force {wt}")
shutil.rmtree(wt, ignore_errors=True)
out = {"base": sh("git -C /repo rev-parse --short HEAD").stdout.strip()}
r = sh(f"git -C /repo worktree add --detach {wt} HEAD")
try:
    r = sh(f"git -C {wt} apply {seed}/patch.diff")
    out["patch_applies"] = r.returncode == 0
    if r.returncode != 0:
        out["error"] = r.stdout[-800:]
    else:
        sh("cargo build --offline -q -p koto_cli -j 8", cwd="/repo")
        r = sh("cargo build --offline -q -p koto_cli -j 8", cwd=wt)
        out["builds"] = r.returncode == 0
        if r.returncode != 0:
            out["error"] = r.stdout[-1500:]
        demos = [f for f in os.listdir(seed) if f.endswith(".koto")]
        out["demos"] = {}
        for d in demos:
            shutil.copy(os.path.join(seed, d), f"/tmp/confirm-{name}-{d}")
            a = sh(f"timeout 60 /repo/target/debug/koto /tmp/confirm-{name}-{d}")
            b = sh(f"timeout 60 {wt}/target/debug/koto /tmp/confirm-{name}-{d}")
            os.remove(f"/tmp/confirm-{name}-{d}")
            cut = lambda s: s.split("Stack backtrace")[0][-1500:]
            out["demos"][d] = {"unchanged": cut(a.stdout), "unchanged_rc": a.returncode,
                               "changed": cut(b.stdout), "changed_rc": b.returncode,
                               "differs": (a.stdout.split("Stack backtrace")[0], a.returncode) != (b.stdout.split("Stack backtrace")[0], b.returncode)}
        if os.environ.get("CONFIRM_SUITE", "0") == "1":
            r = sh("cargo nextest run --workspace --no-fail-fast --offline --test-threads 6 --build-jobs 8 2>&1 | tail -4", cwd=wt)
            out["test_suite"] = r.stdout.strip().splitlines()[-2:] if r.stdout.strip() else []
            out["tests_pass"] = "1099 passed" in r.stdout and "failed" not in r.stdout.split("Summary")[-1]
        else:
            # the whole test suite is run by tools/confirm_suite_batch.py (one worktree, incremental builds)
            out["tests_pass"] = None
finally:
    sh(f"git -C /repo worktree remove --force {wt}")
    shutil.rmtree(wt, ignore_errors=True)
json.dump(out, open(os.path.join(seed, "confirm.json"), "w"), indent=1)
print(json.dumps(out, indent=1)[:3000])
