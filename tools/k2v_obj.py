#!/usr/bin/env python3
"""k2v_obj: metakey <-> operator tables for unit `obj` (property C17).

Reads
  crates/runtime/src/types/meta_map.rs   enums MetaKey / BinaryOp / UnaryOp / ReadOp / WriteOp and
                                         meta_id_to_key() (MetaKeyId -> MetaKey)
  crates/parser/src/node.rs              enum MetaKeyId and MetaKeyId::as_str() (the source spelling)
  crates/parser/src/parser.rs            parse_meta_key() (which MetaKeyIds the parser can produce)
and writes coq/obj/GenMeta.v: the operator enums as Coq inductives (so that the hand-written
dispatch model pattern-matches on the *generated* constructors: a renamed / removed / added
operator breaks the build of the model), the list of every operator metakey, and the
spelling table.  The JSON side-output carries the spellings used by checks/c17.py to write
object definitions (so a re-spelt metakey reaches the real parser)."""
import json
import os
import re
import sys

sys.path.insert(0, os.path.dirname(os.path.dirname(os.path.abspath(__file__))))
from tools import k2v  # noqa: E402
from tools.k2v import GenError  # noqa: E402


def enum_variants(text, name, where):
    body = k2v.region(text, r"pub enum " + name + r"\s*\{", f"enum {name} in {where}")
    out = []
    for line in body.split("\n"):
        line = line.strip()
        if not line or line.startswith("//") or line.startswith("#["):
            continue
        m = re.match(r"^([A-Z][A-Za-z0-9]*)\s*(\(([^)]*)\))?\s*,$", line)
        if not m:
            raise GenError(f"enum {name}: unexpected line {line!r}")
        out.append((m.group(1), m.group(3)))
    if not out:
        raise GenError(f"enum {name}: no variants")
    return out


def gen_meta(out_v, out_json):
    mm = k2v.read("crates/runtime/src/types/meta_map.rs")
    node = k2v.read("crates/parser/src/node.rs")
    parser = k2v.read("crates/parser/src/parser.rs")

    binops = [v for v, p in enum_variants(mm, "BinaryOp", "meta_map.rs")]
    unops = [v for v, p in enum_variants(mm, "UnaryOp", "meta_map.rs")]
    readops = [v for v, p in enum_variants(mm, "ReadOp", "meta_map.rs")]
    writeops = [v for v, p in enum_variants(mm, "WriteOp", "meta_map.rs")]
    metakey = enum_variants(mm, "MetaKey", "meta_map.rs")
    ids = [v for v, p in enum_variants(node, "MetaKeyId", "node.rs")]
    if ids[-1] != "Invalid":
        raise GenError("MetaKeyId: last variant is not Invalid")

    payload_enums = {"BinaryOp": binops, "UnaryOp": unops, "ReadOp": readops, "WriteOp": writeops}
    for v, p in metakey:
        if p is not None and p not in payload_enums and p != "KString":
            raise GenError(f"MetaKey::{v}: unexpected payload {p}")

    # MetaKeyId::as_str
    impl = k2v.region(node, r"impl MetaKeyId\s*\{", "impl MetaKeyId")
    body = k2v.region(impl, r"pub fn as_str\(&self\)\s*->\s*&'static str\s*\{", "MetaKeyId::as_str")
    spell = {}
    for m in re.finditer(r"^\s*([A-Z][A-Za-z0-9]*)\s*=>\s*\"((?:[^\"\\]|\\.)*)\"\s*,", body, re.M):
        spell[m.group(1)] = m.group(2)
    for i in ids:
        if i != "Invalid" and i not in spell:
            raise GenError(f"MetaKeyId::as_str has no arm for {i}")

    # meta_id_to_key
    body = k2v.region(mm, r"pub fn meta_id_to_key\(", "meta_id_to_key")
    id2key = {}
    for m in re.finditer(r"MetaKeyId::([A-Za-z0-9]+)\s*=>\s*(?:\{\s*)?MetaKey::([A-Za-z0-9]+)(?:\(\s*([A-Za-z0-9_]+))?", body):
        id2key[m.group(1)] = (m.group(2), m.group(3))
    for i in ids:
        if i == "Invalid":
            continue
        if i not in id2key:
            raise GenError(f"meta_id_to_key has no arm for MetaKeyId::{i}")
    mk_names = {v: p for v, p in metakey}
    for i, (mk, payload) in id2key.items():
        if mk not in mk_names:
            raise GenError(f"meta_id_to_key: unknown MetaKey::{mk}")
        pe = mk_names[mk]
        if pe in payload_enums and payload not in payload_enums[pe]:
            raise GenError(f"meta_id_to_key: {i} => MetaKey::{mk}({payload}) is not a variant of {pe}")

    # parse_meta_key: which ids can the parser produce
    body = k2v.region(parser, r"fn parse_meta_key\(&mut self\)", "parse_meta_key")
    parsed = set(re.findall(r"=>\s*(?:\{[^}]*?)?MetaKeyId::([A-Za-z0-9]+)", body))
    parsed |= set(re.findall(r"MetaKeyId::([A-Za-z0-9]+)\s*$", body, re.M))
    ident_arms = dict(re.findall(r"\"([a-z_]+)\"\s*=>\s*MetaKeyId::([A-Za-z0-9]+)", body))
    for name, i in ident_arms.items():
        if spell.get(i) != "@" + name:
            raise GenError(f"parse_meta_key: \"{name}\" => {i} but as_str({i}) = {spell.get(i)!r}")
    for i in ids:
        if i != "Invalid" and i not in parsed:
            raise GenError(f"parse_meta_key never produces MetaKeyId::{i}")

    # ---- emit
    def ind(name, ctors, prefix):
        s = f"Inductive {name} : Set :=\n" + "".join(f"  | {prefix}{c}\n" for c in ctors) + ".\n"
        s += f"Definition all_{name} : list {name} := [" + "; ".join(prefix + c for c in ctors) + "].\n"
        s += f"Definition {name}_eqb (a b : {name}) : bool :=\n  match a, b with\n"
        s += "".join(f"  | {prefix}{c}, {prefix}{c} => true\n" for c in ctors)
        s += "  | _, _ => false\n  end.\n\n"
        return s

    v = "(* GENERATED by tools/k2v_obj.py from crates/runtime/src/types/meta_map.rs,\n" \
        "   crates/parser/src/node.rs and crates/parser/src/parser.rs -- do not edit *)\n" \
        "From Coq Require Import List String.\nImport ListNotations.\nLocal Open Scope string_scope.\n\n"
    v += ind("binop", binops, "B")
    v += ind("unop", unops, "U")
    v += ind("readop", readops, "R")
    v += ind("writeop", writeops, "W")
    pm = {"BinaryOp": "binop", "UnaryOp": "unop", "ReadOp": "readop", "WriteOp": "writeop", "KString": "string"}
    v += "Inductive metakey : Set :=\n"
    for c, p in metakey:
        v += f"  | M{c}" + (f" (x : {pm[p]})" if p else "") + "\n"
    v += ".\n\n"
    # every operator metakey = all payload-enum instances + Call
    opkeys = []
    for c, p in metakey:
        if p in payload_enums:
            pre = {"BinaryOp": "B", "UnaryOp": "U", "ReadOp": "R", "WriteOp": "W"}[p]
            opkeys += [f"M{c} {pre}{x}" for x in payload_enums[p]]
        elif c == "Call":
            opkeys.append("MCall")
    v += "(* every metakey that names an operator / protocol function *)\n"
    v += "Definition op_metakeys : list metakey := [\n  " + ";\n  ".join(opkeys) + "].\n\n"
    # spelling table: MetaKeyId (parser) -> source spelling and runtime MetaKey
    v += "(* parser MetaKeyId name, source spelling, runtime MetaKey (meta_id_to_key) for the operator keys *)\n"
    rows = []
    jrows = {}
    for i in ids:
        if i == "Invalid":
            continue
        mk, payload = id2key[i]
        pe = mk_names[mk]
        if pe in payload_enums:
            pre = {"BinaryOp": "B", "UnaryOp": "U", "ReadOp": "R", "WriteOp": "W"}[pe]
            term = f"M{mk} {pre}{payload}"
        elif pe is None:
            term = f"M{mk}"
        else:
            continue  # Named / Test carry a name
        if term in opkeys:
            rows.append(f"(\"{i}\", \"{spell[i]}\", {term})")
        jrows[i] = {"spelling": spell[i], "key": term}
    v += "Definition spelling : list (string * string * metakey) := [\n  " + ";\n  ".join(rows) + "].\n"
    changed = k2v.write_if_changed(out_v, v)
    info = {"binops": binops, "unops": unops, "readops": readops, "writeops": writeops,
            "metakey": [c for c, p in metakey], "ids": jrows, "op_metakeys": opkeys}
    k2v.write_if_changed(out_json, json.dumps(info, indent=1))
    return info, changed


GENERATORS = {"meta": gen_meta}
DEFAULT_OUTPUTS = {"meta": ("coq/obj/GenMeta.v", "build/gen/meta.json")}

if __name__ == "__main__":
    which = sys.argv[1] if len(sys.argv) > 1 else "meta"
    outs = sys.argv[2:] or [os.path.join("/verif", p) for p in DEFAULT_OUTPUTS[which]]
    info, changed = GENERATORS[which](*outs)
    print(("rewritten " if changed else "unchanged ") + outs[0])
