#!/usr/bin/env python3
"""k2v_bc: transcribe koto's bytecode tables into coq/bc/GenOps.v.

Sources:
  crates/bytecode/src/op.rs                  enum Op            -> opcode numbering (incl. Unused*)
  crates/bytecode/src/instruction_reader.rs  InstructionReader::next, one `Op::X =>` arm per opcode
                                             -> operand layout (sequence of reads) + view (Instruction
                                                variant and how its fields are computed from the reads)
  crates/bytecode/src/instruction.rs         FunctionFlags / StringFormatFlags limits and bit masks
  crates/parser/src/node.rs                  MetaKeyId::Invalid (first invalid meta id)
  crates/parser/src/string_format_options.rs StringFormatRepresentation (number of variants)

Arms that are a plain sequence of reads are parsed; the arms `Function` and `StringPush` (and the
read macros themselves) are hand-modelled in coq/bc/Decode.v and are PINNED here to a hash of their
source text: if they change, the generator fails (a broken `gen:` obligation) instead of guessing.
"""
import hashlib
import json
import re
import sys

from tools.k2v import GenError, matching_brace, read, region, write_if_changed

# sha1 of the whitespace-normalised source text of the hand-modelled pieces
PINNED = [
    "macro get_u8", "macro get_u8_array", "macro get_u16", "macro get_var_u32",
    "macro get_var_u32_with_first_byte", "prologue", "arm Function", "arm StringPush", "arm _",
    "fn out_of_bounds_access_error", "FunctionFlags::try_from", "StringFormatFlags::try_from",
    "StringFormatRepresentation::try_from", "MetaKeyId::try_from",
]
# hashes the model in coq/bc/Decode.v was written for (print current ones: K2V_BC_SHOW_PINS=1)
PIN_HASHES = {
    "FunctionFlags::try_from": "4fafcd643b00d73d",
    "MetaKeyId::try_from": "f97b0544b979ef96",
    "StringFormatFlags::try_from": "ac6573136e943f32",
    "StringFormatRepresentation::try_from": "84362e34297aa1ab",
    "arm Function": "16d6b7b137a6141b",
    "arm StringPush": "420c0deb856fe9e5",
    "arm _": "516b1bbdf87f664a",
    "fn out_of_bounds_access_error": "44e97b1e6fa584a5",
    "macro get_u16": "6002d10ca125008c",
    "macro get_u8": "87cffb53b8dc5a2b",
    "macro get_u8_array": "ca00f4f7124c0209",
    "macro get_var_u32": "f10349c48809d83d",
    "macro get_var_u32_with_first_byte": "cdf4c4ecb8da2078",
    "prologue": "6f1febc12ae4f1ae"
}


def norm(s):
    s = re.sub(r"//[^\n]*", "", s)
    return " ".join(s.split())


def h(s):
    return hashlib.sha1(norm(s).encode()).hexdigest()[:16]


def enum_variants(src, name):
    body = region(src, r"pub enum " + name + r"\s*\{", "enum " + name)
    body = re.sub(r"//[^\n]*", "", body)
    body = re.sub(r"#\[[^\]]*\]", "", body)
    out = []
    for item in body.split(","):
        item = item.strip()
        if not item:
            continue
        if not re.fullmatch(r"[A-Za-z_][A-Za-z0-9_]*", item):
            raise GenError(f"enum {name}: unexpected variant syntax {item!r}")
        out.append(item)
    return out


def macro_text(fn, name):
    m = re.search(r"macro_rules!\s*" + re.escape(name) + r"\s*\{", fn)
    if not m:
        raise GenError(f"macro {name} not found")
    o = fn.index("{", m.end() - 1)
    return fn[o:matching_brace(fn, o) + 1]


def split_arms(body):
    """top-level arms of a `match op { ... }` body -> list of (pattern, expr_text)"""
    arms = []
    i = 0
    n = len(body)
    while i < n:
        while i < n and body[i] in " \t\r\n,":
            i += 1
        if i >= n:
            break
        if body.startswith("//", i):
            i = body.index("\n", i)
            continue
        m = re.match(r"(Op::([A-Za-z0-9_]+)|_)\s*=>\s*", body[i:])
        if not m:
            raise GenError(f"match op: cannot parse arm at: {body[i:i+60]!r}")
        pat = m.group(2) or "_"
        i += m.end()
        # arm expression: up to the ',' at depth 0 (or a block / struct literal closing brace)
        depth = 0
        j = i
        while j < n:
            c = body[j]
            if body.startswith("//", j):
                j = body.index("\n", j)
                continue
            if c == '"':
                j += 1
                while body[j] != '"':
                    if body[j] == "\\":
                        j += 1
                    j += 1
            elif c in "{([":
                depth += 1
            elif c in "})]":
                depth -= 1
                if depth == 0 and c == "}":
                    j += 1
                    break
            elif c == "," and depth == 0:
                break
            j += 1
        arms.append((pat, body[i:j].strip()))
        i = j
    return arms


def split_top(s, sep=","):
    parts = []
    depth = 0
    cur = ""
    for c in s:
        if c in "{([":
            depth += 1
        elif c in "})]":
            depth -= 1
        if c == sep and depth == 0:
            parts.append(cur)
            cur = ""
        else:
            cur += c
    if cur.strip():
        parts.append(cur)
    return [p.strip() for p in parts if p.strip()]


class Arm:
    """symbolic evaluation of one plain arm: the reads it performs in order, and the view"""

    def __init__(self, op):
        self.op = op
        self.steps = []       # layout
        self.slots = []       # live slot ids, in argument order
        self.next_slot = 0
        self.names = {}       # rust local name -> slot id
        self.a_slot = None    # slot of byte_a when used as a plain value
        self.a_consumed = False

    def fail(self, why):
        raise GenError(f"arm Op::{self.op}: {why}")

    def new(self):
        s = self.next_slot
        self.next_slot += 1
        self.slots.append(s)
        return s

    def byte_a(self):
        if self.a_consumed:
            self.fail("byte_a used both as a value and inside a combined read")
        if self.a_slot is None:
            # byte_a is available before any read: it is always argument 0
            if any(st != "RA" for st in self.steps) and self.slots:
                # reads already happened; keep byte_a first by construction
                s = self.next_slot
                self.next_slot += 1
                self.slots.insert(0, s)
                self.steps.insert(0, "RA")
                self.a_slot = s
            else:
                self.a_slot = self.new()
                self.steps.append("RA")
        return self.a_slot

    def value(self, e):
        """evaluate an expression that yields a byte / number; returns a view expression"""
        e = e.strip()
        if e == "byte_a":
            return ["arg", self.byte_a()]
        if e in self.names:
            return ["arg", self.names[e]]
        if e == "get_u8!()":
            self.steps.append("R8")
            return ["arg", self.new()]
        if e == "get_u16!()":
            self.steps.append("R16")
            return ["arg", self.new()]
        if e in ("get_var_u32!()", "get_var_u32!().into()"):
            self.steps.append("RVar")
            return ["arg", self.new()]
        m = re.fullmatch(r"get_var_u32_with_first_byte!\((\w+)\)(\.into\(\))?", e)
        if m:
            src = m.group(1)
            if src == "byte_a":
                if self.a_slot is not None:
                    self.fail("byte_a reused as first byte of a var u32")
                self.a_consumed = True
                self.steps.append("RVarA")
                return ["arg", self.new()]
            if src not in self.names or not self.slots or self.slots[-1] != self.names[src]:
                self.fail(f"var u32 first byte {src} is not the most recently read byte")
            self.slots.pop()
            self.steps.append("RVarLast")
            return ["arg", self.new()]
        m = re.fullmatch(r"u16::from_le_bytes\(\[\s*(\w+)\s*,\s*(.+?)\s*\]\)", e)
        if m:
            lo, hi = m.group(1), m.group(2)
            if lo == "byte_a" and hi == "get_u8!()":
                if self.a_slot is not None:
                    self.fail("byte_a reused as low byte of a u16")
                self.a_consumed = True
                self.steps.append("R16A")
                return ["arg", self.new()]
            if lo in self.names and hi in self.names and len(self.slots) >= 2 \
                    and self.slots[-2] == self.names[lo] and self.slots[-1] == self.names[hi]:
                self.slots.pop()
                self.slots.pop()
                self.steps.append("RJoin16")
                return ["arg", self.new()]
            self.fail(f"unsupported u16::from_le_bytes operands {lo}, {hi}")
        m = re.fullmatch(r"(.+) as (i64|usize|u32)", e)
        if m:
            return self.value(m.group(1))
        m = re.fullmatch(r"(\w+) as i8", e)
        if m:
            v = self.value(m.group(1))
            return ["i8", v[1]]
        m = re.fullmatch(r"-\((.+)\)", e)
        if m:
            v = self.value(m.group(1))
            if v[0] != "arg":
                self.fail("negation of a non-read")
            return ["neg", v[1]]
        m = re.fullmatch(r"Some\((\w+)\)", e)
        if m:
            return self.value(m.group(1))
        if e == "None":
            return ["const", -1]
        if e == "false":
            return ["const", 0]
        if e == "true":
            return ["const", 1]
        if re.fullmatch(r"\d+", e):
            return ["const", int(e)]
        self.fail(f"unsupported operand expression {e!r}")

    def struct_literal(self, text):
        text = text.strip()
        m = re.fullmatch(r"([A-Z][A-Za-z0-9]*)\s*(\{(.*)\})?", text, re.S)
        if not m:
            self.fail(f"expected an Instruction literal, found {text[:60]!r}")
        variant = m.group(1)
        fields = []
        if m.group(3) is not None:
            for f in split_top(m.group(3)):
                fm = re.fullmatch(r"(\w+)\s*(?::\s*(.+))?", f, re.S)
                if not fm:
                    self.fail(f"field syntax {f!r}")
                name = fm.group(1)
                expr = fm.group(2) if fm.group(2) is not None else name
                fields.append((name, self.value(" ".join(expr.split()))))
        return variant, fields

    def finish(self, variant, fields, check):
        pos = {s: i for i, s in enumerate(self.slots)}

        def fin(v):
            if v[0] in ("arg", "neg", "i8"):
                if v[1] not in pos:
                    self.fail("a read that was folded into a wider value is also used on its own")
                return [v[0], pos[v[1]]]
            return v
        used = set()
        view = []
        for name, v in fields:
            v = fin(v)
            if v[0] != "const":
                used.add(v[1])
            view.append([name, v])
        # every read must be observable in the Instruction (else the model could not be compared)
        for s, i in pos.items():
            if i not in used:
                self.fail(f"argument {i} is read but not used by the Instruction")
        chk = None
        if check is not None:
            chk = [pos[check[0]], check[1]]
        return {"op": self.op, "steps": self.steps, "variant": variant, "view": view, "check": chk}


def parse_plain_arm(op, text):
    a = Arm(op)
    text = text.strip()
    check = None
    if text.startswith("{"):
        inner = text[1:matching_brace(text, 0)].strip()
        # leading let statements
        while True:
            m = re.match(r"let\s+\[([^\]]*)\]\s*=\s*get_u8x(\d)!\(\)\s*;", inner)
            if m:
                names = [x.strip() for x in m.group(1).split(",") if x.strip()]
                k = int(m.group(2))
                if len(names) != k:
                    a.fail("array pattern length differs from the read width")
                a.steps.append(f"R8n {k}")
                for nm in names:
                    a.names[nm] = a.new()
                inner = inner[m.end():].strip()
                continue
            m = re.match(r"let\s+(\w+)\s*=\s*byte_a\s*;", inner)
            if m:
                a.names[m.group(1)] = a.byte_a()
                inner = inner[m.end():].strip()
                continue
            m = re.match(r"let\s+(\w+)\s*=\s*get_u8!\(\)\s*;", inner)
            if m:
                a.steps.append("R8")
                a.names[m.group(1)] = a.new()
                inner = inner[m.end():].strip()
                continue
            break
        m = re.match(r"if let Ok\(id\) = (\w+)\.try_into\(\)\s*\{", inner)
        if m:
            # meta id check: Instruction on success, Error otherwise
            src = m.group(1)
            if src not in a.names:
                a.fail("meta id source is not a read byte")
            o = inner.index("{", m.start())
            c = matching_brace(inner, o)
            ok_part = inner[o + 1:c].strip()
            while ok_part.startswith("{") and matching_brace(ok_part, 0) == len(ok_part) - 1:
                ok_part = ok_part[1:-1].strip()
            rest = inner[c + 1:].strip()
            if not re.fullmatch(r"else\s*\{\s*Error\s*\{.*\}\s*\}", rest, re.S):
                a.fail("meta id check: unexpected else branch")
            a.names["id"] = a.names[src]
            check = (a.names[src], "META_INVALID")
            variant, fields = a.struct_literal(ok_part)
        else:
            variant, fields = a.struct_literal(inner)
    else:
        variant, fields = a.struct_literal(text)
    return a.finish(variant, fields, check)


IRREGULAR = {"Function": 1, "StringPush": 2}


def const_from(src, pattern, what):
    m = re.search(pattern, src)
    if not m:
        raise GenError(f"cannot find {what}")
    v = m.group(1).replace("_", "")
    if v.startswith("0b"):
        return int(v[2:], 2)
    if "<<" in v:
        a, b = v.split("<<")
        return int(a) << int(b)
    return int(v)


def gen_ops(out_v, out_json, strict=True):
    op_src = read("crates/bytecode/src/op.rs")
    ops = enum_variants(op_src, "Op")
    if len(ops) != 256:
        raise GenError(f"enum Op has {len(ops)} variants, expected 256")
    if not re.search(r"impl From<u8> for Op\s*\{\s*fn from\(op: u8\) -> Op\s*\{[^}]*transmute\(op\)", norm(op_src)):
        raise GenError("Op::from(u8) is no longer a transmute (opcode numbering unknown)")
    for i, o in enumerate(ops):
        if o.startswith("Unused") and o != f"Unused{i}":
            raise GenError(f"{o} is at position {i}")

    rd = read("crates/bytecode/src/instruction_reader.rs")
    fn = region(rd, r"fn next\(&mut self\) -> Option<Self::Item>\s*\{", "InstructionReader::next")
    pins = {}
    for mname in ["get_u8", "get_u8_array", "get_u16", "get_var_u32", "get_var_u32_with_first_byte"]:
        pins["macro " + mname] = h(macro_text(fn, mname))
    for k in range(2, 7):
        if norm(macro_text(fn, f"get_u8x{k}")) != norm("{ () => {{ get_u8_array!(%d) }}; }" % k):
            raise GenError(f"macro get_u8x{k} has changed shape")
    mm = re.search(r"// Each op consists of at least two bytes(.*?)let instruction = match op \{", fn, re.S)
    if not mm:
        raise GenError("prologue of InstructionReader::next not found")
    pins["prologue"] = h(mm.group(1))
    o = fn.index("{", mm.end() - 1)
    c = matching_brace(fn, o)
    tail = norm(fn[c + 1:])
    if tail != "; Some(instruction)":
        raise GenError(f"unexpected code after the opcode match: {tail!r}")
    arms = split_arms(fn[o + 1:c])
    pins["fn out_of_bounds_access_error"] = h(region(rd, r"fn out_of_bounds_access_error\(", "out_of_bounds_access_error"))

    ins = read("crates/bytecode/src/instruction.rs")
    pins["FunctionFlags::try_from"] = h(region(ins, r"impl TryFrom<u8> for FunctionFlags\s*\{", "FunctionFlags::try_from"))
    pins["StringFormatFlags::try_from"] = h(region(ins, r"impl TryFrom<u8> for StringFormatFlags\s*\{", "StringFormatFlags::try_from"))
    m = re.search(r"impl TryFrom<u8> for FunctionFlags.*?if byte <= (0b[01_]+)", ins, re.S)
    if not m:
        raise GenError("FunctionFlags::try_from limit not found")
    ff_max = int(m.group(1)[2:].replace("_", ""), 2)
    m = re.search(r"impl TryFrom<u8> for StringFormatFlags.*?if byte <= (0b[01_]+)", ins, re.S)
    if not m:
        raise GenError("StringFormatFlags::try_from limit not found")
    sf_max = int(m.group(1)[2:].replace("_", ""), 2)
    sf = {}
    for nm in ["MIN_WIDTH", "PRECISION", "FILL_CHARACTER", "REPRESENTATION"]:
        sf[nm] = const_from(ins, r"pub const " + nm + r": u8 = (\d+ << \d+);", "StringFormatFlags::" + nm)
    for nm, fnm in [("MIN_WIDTH", "has_min_width"), ("PRECISION", "has_precision"),
                    ("FILL_CHARACTER", "has_fill_character"), ("REPRESENTATION", "has_representation")]:
        if not re.search(r"pub fn " + fnm + r"\(&self\) -> bool \{ self\.0 & Self::" + nm + r" != 0 \}", norm(ins)):
            raise GenError(f"StringFormatFlags::{fnm} has changed shape")
    if not re.search(r"let bits = self\.0 & 0b11;", ins):
        raise GenError("StringFormatFlags::alignment has changed shape")

    node = read("crates/parser/src/node.rs")
    meta = enum_variants(node, "MetaKeyId")
    if meta[-1] != "Invalid":
        raise GenError("MetaKeyId::Invalid is not the last variant")
    pins["MetaKeyId::try_from"] = h(region(node, r"impl TryFrom<u8> for MetaKeyId\s*\{", "MetaKeyId::try_from"))
    sfo = read("crates/parser/src/string_format_options.rs")
    reprs = enum_variants(sfo, "StringFormatRepresentation")
    pins["StringFormatRepresentation::try_from"] = h(region(sfo, r"impl TryFrom<u8> for StringFormatRepresentation\s*\{",
                                                            "StringFormatRepresentation::try_from"))
    body = norm(region(sfo, r"impl TryFrom<u8> for StringFormatRepresentation\s*\{", "x"))
    for r_ in reprs:
        if f"byte == Self::{r_} as u8 {{ Ok(Self::{r_}) }}" not in body:
            raise GenError(f"StringFormatRepresentation::try_from does not accept {r_}")
    aligns = enum_variants(sfo, "StringAlignment")
    if aligns != ["Default", "Left", "Center", "Right"]:
        raise GenError("StringAlignment variants changed")

    seen = {}
    default_seen = False
    for pat, text in arms:
        if pat == "_":
            default_seen = True
            pins["arm _"] = h(text)
            continue
        if default_seen:
            raise GenError("arm after the default arm")
        if pat in seen:
            raise GenError(f"duplicate arm Op::{pat}")
        if pat not in ops:
            raise GenError(f"arm for unknown Op::{pat}")
        if pat in IRREGULAR:
            pins["arm " + pat] = h(text)
            seen[pat] = {"op": pat, "irregular": IRREGULAR[pat]}
        else:
            seen[pat] = parse_plain_arm(pat, text)
    if not default_seen:
        raise GenError("no default arm")
    for o_ in ops:
        if o_.startswith("Unused"):
            if o_ in seen:
                raise GenError(f"{o_} has a decoder arm")
        elif o_ not in seen:
            raise GenError(f"Op::{o_} has no decoder arm (falls into the default Error arm)")
    for name in IRREGULAR:
        if name not in seen:
            raise GenError(f"Op::{name} arm missing")

    # pins: compare with the hashes the hand-written model was made for
    import os
    expected = PIN_HASHES
    if os.environ.get("K2V_BC_SHOW_PINS") == "1":
        print(json.dumps(pins, indent=4, sort_keys=True))
    pin_mismatch = []
    for k in PINNED:
        if k not in pins:
            raise GenError(f"pinned piece {k} not found")
        if expected.get(k) != pins[k]:
            pin_mismatch.append(f"hand-modelled piece `{k}` of instruction_reader.rs / flags changed "
                                f"(hash {pins[k]}, model written for {expected.get(k)}): re-model coq/bc/Decode.v")
    if pin_mismatch and strict:
        raise GenError("; ".join(pin_mismatch))

    # ---- emit
    L = ["(* GENERATED by tools/k2v_bc.py from crates/bytecode/src/{op,instruction_reader,instruction}.rs -- do not edit *)",
         "From Coq Require Import List NArith.", "From KV.bc Require Import Instr.", "Import ListNotations.",
         "Open Scope N_scope.", ""]
    for i, o_ in enumerate(ops):
        if not o_.startswith("Unused"):
            L.append(f"Definition OP_{o_} : N := {i}.")
    L.append("")
    L.append(f"Definition META_INVALID : N := {len(meta) - 1}.")
    L.append(f"Definition FUNCTION_FLAGS_MAX : N := {ff_max}.")
    L.append(f"Definition STRING_FLAGS_MAX : N := {sf_max}.")
    for nm in sf:
        L.append(f"Definition SF_{nm} : N := {sf[nm]}.")
    L.append(f"Definition REPR_COUNT : N := {len(reprs)}.")
    L.append("")
    def merge(steps, op):
        out = []
        for st in steps:
            if st in ("RVarLast", "RJoin16"):
                if not out or not out[-1].startswith("R8n "):
                    raise GenError(f"arm Op::{op}: {st} does not follow a get_u8xN read")
                k = int(out[-1].split()[1])
                out[-1] = ("S8nVar %d" if st == "RVarLast" else "S8nJoin %d") % k
            else:
                out.append(st)
        return [("S" + x[1:]) if x.startswith("R") else x for x in out]

    L.append("Definition op_table : list shape :=")
    rows = []
    for i, o_ in enumerate(ops):
        if o_.startswith("Unused"):
            rows.append(f"Unused (* {i} *)")
        elif "irregular" in seen[o_]:
            rows.append(f"Irregular {seen[o_]['irregular']} (* {i} {o_} *)")
        else:
            d = seen[o_]
            chk = "None" if d["check"] is None else f"(Some ({d['check'][0]}%nat, {d['check'][1]}))"
            d["layout"] = merge(d["steps"], o_)
            rows.append("Regular [" + "; ".join(d["layout"]) + f"] {chk} (* {i} {o_} *)")
    L.append("  [ " + ";\n    ".join(rows) + " ].")
    L.append("")
    changed = write_if_changed(out_v, "\n".join(L) + "\n")
    info = {"ops": ops, "arms": [seen.get(o_) for o_ in ops], "meta_invalid": len(meta) - 1, "meta": meta,
            "function_flags_max": ff_max, "string_flags_max": sf_max, "sf": sf, "reprs": reprs, "pins": pins, "pin_mismatch": pin_mismatch}
    if out_json:
        write_if_changed(out_json, json.dumps(info, indent=1))
    return info, changed


GENERATORS = {"bc": gen_ops}
DEFAULT_OUTPUTS = {"bc": ("coq/bc/GenOps.v", "build/gen/bc.json")}

if __name__ == "__main__":
    which = sys.argv[1]
    try:
        info, changed = GENERATORS[which](*sys.argv[2:])
        print(f"k2v_bc {which}: ok ({'rewritten' if changed else 'unchanged'})")
    except GenError as e:
        print(f"k2v_bc {which}: GEN-ERROR {e}")
        sys.exit(2)
