#!/usr/bin/env python3
"""Aggregate seeded/*/meta.json + results.json into seeded/README.md."""
import json
import os

VERIF = os.path.dirname(os.path.dirname(os.path.abspath(__file__)))
S = os.path.join(VERIF, "seeded")
rows = []
for name in sorted(os.listdir(S)):
    d = os.path.join(S, name)
    if not os.path.isdir(d) or not os.path.exists(os.path.join(d, "meta.json")):
        continue
    meta = json.load(open(os.path.join(d, "meta.json")))
    res = json.load(open(os.path.join(d, "results.json"))) if os.path.exists(os.path.join(d, "results.json")) else {"checks": {}}
    checks = "; ".join(f"{p}: {r['verdict']}" for p, r in res.get("checks", {}).items()) or "not run"
    first = res.get("history", [])
    if first:
        checks += " — FIRST RUN: " + "; ".join(f"{p}: {v}" for p, v in first[0]["checks"].items())
    conf = json.load(open(os.path.join(d, "confirm.json"))) if os.path.exists(os.path.join(d, "confirm.json")) else {}
    ok = conf.get("patch_applies") and conf.get("builds") and conf.get("tests_pass")
    demo = any(v.get("differs") for v in conf.get("demos", {}).values()) if conf.get("demos") else None
    checks += f" [confirmed: builds+1099 tests pass={bool(ok)}, demo differs={demo}]"
    rows.append((name, meta.get("property"), meta.get("what_changed", "").replace("\n", " ")[:160],
                 meta.get("needs_to_manifest", "").replace("\n", " ")[:160], checks))
with open(os.path.join(S, "README.md"), "w") as f:
    f.write("# Seeded changes\n\nEach directory holds `patch.diff` (against /repo HEAD at the time, see results.json `base`), the\n"
            "demonstration, `meta.json` and `results.json` (written by `tools/run_seed.py`, which applies the patch to a scratch\n"
            "worktree, runs the checks with `KOTO_REPO` pointing at it and removes the worktree).\n\n"
            "Verdicts: `caught-with-input` = VIOLATION with a concrete replay; `caught-obligation-only` = VIOLATION ... "
            "no-failing-input-found (a theorem / table / correspondence broke); `missed` = exit 0.\n\n"
            "| seed | property | change | needs to manifest | checks |\n|---|---|---|---|---|\n")
    for r in rows:
        f.write("| " + " | ".join(str(x).replace("|", "\\|") for x in r) + " |\n")
print(len(rows), "seeds")
