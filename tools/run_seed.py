#!/usr/bin/env python3
"""Run checks against a seeded change.

  tools/run_seed.py <seed-dir> [Cxx ...]

<seed-dir> holds patch.diff and meta.json (property).  The patch is applied to a
scratch worktree of /repo's HEAD under /tmp (never to /repo itself); the listed
checks (default: the seed's own property) are run with KOTO_REPO pointing at it;
the outcome is written to <seed-dir>/results.json; the worktree and the per-checkout
build directories under /verif/build are removed afterwards."""
import hashlib
import json
import os
import shutil
import subprocess
import sys
import time

VERIF = os.path.dirname(os.path.dirname(os.path.abspath(__file__)))


def sh(cmd, **kw):
    return subprocess.run(cmd, shell=isinstance(cmd, str), stdout=subprocess.PIPE, stderr=subprocess.STDOUT, text=True, **kw)


def main():
    seed = os.path.abspath(sys.argv[1])
    meta = json.load(open(os.path.join(seed, "meta.json")))
    props = sys.argv[2:] or [meta["property"]]
    name = os.path.basename(seed.rstrip("/"))
    wt = f"/tmp/wt-seed-{name}"
    sh(f"git -C /repo worktree remove --force {wt}")
    shutil.rmtree(wt, ignore_errors=True)
    r = sh(f"git -C /repo worktree add --detach {wt} HEAD")
    if r.returncode != 0:
        print(r.stdout)
        sys.exit(2)
    results = {"seed": name, "base": sh("git -C /repo rev-parse --short HEAD").stdout.strip(), "checks": {}}
    try:
        r = sh(f"git -C {wt} apply {os.path.join(seed, 'patch.diff')}")
        if r.returncode != 0:
            print("patch does not apply:\n" + r.stdout)
            results["error"] = "patch does not apply: " + r.stdout[-500:]
        else:
            env = dict(os.environ, KOTO_REPO=wt)
            for p in props:
                t0 = time.time()
                r = sh(["./check", p, "--tier", "quick"], cwd=VERIF, env=env)
                lines = [l for l in r.stdout.splitlines() if l.startswith(("VIOLATION", "KNOWN-FINDING", "[" + p + "]"))]
                viol = [l for l in lines if l.startswith("VIOLATION")]
                verdict = "missed" if r.returncode == 0 else ("caught-with-input" if any("no-failing-input-found" not in l for l in viol)
                                                              else ("caught-obligation-only" if viol else f"machinery-error rc={r.returncode}"))
                results["checks"][p] = {"exit": r.returncode, "verdict": verdict, "wall_s": round(time.time() - t0),
                                        "lines": lines[-8:]}
                print(p, verdict, f"{time.time() - t0:.0f}s")
                for l in lines[-6:]:
                    print("   ", l[:300])
                # keep the replay files next to the seed
                for l in viol:
                    path = l.split("replay=")[1].split()[0]
                    if os.path.exists(path):
                        shutil.copy(path, os.path.join(seed, "replay-" + os.path.basename(path)))
    finally:
        sh(f"git -C /repo worktree remove --force {wt}")
        shutil.rmtree(wt, ignore_errors=True)
        tag = hashlib.sha1(os.path.realpath(wt).encode()).hexdigest()[:8]
        for d in os.listdir(os.path.join(VERIF, "build")):
            if d.endswith("-" + tag):
                shutil.rmtree(os.path.join(VERIF, "build", d), ignore_errors=True)
    rp = os.path.join(seed, "results.json")
    if os.path.exists(rp):
        old = json.load(open(rp))
        hist = old.pop("history", [])
        hist.append({"verif_commit": old.get("verif_commit"), "base": old.get("base"),
                     "checks": {k: v["verdict"] for k, v in old.get("checks", {}).items()}})
        # keep verdicts of checks that were not re-run
        for k, v in old.get("checks", {}).items():
            results["checks"].setdefault(k, v)
        results["history"] = hist
    results["verif_commit"] = sh("git -C " + VERIF + " rev-parse --short HEAD").stdout.strip()
    json.dump(results, open(rp, "w"), indent=1)


if __name__ == "__main__":
    main()
