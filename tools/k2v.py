#!/usr/bin/env python3
"""k2v: transcribe tables from koto's Rust sources into Coq definitions.

Every generator reads named regions of /repo and FAILS LOUDLY (GenError) when a
region does not have the expected shape, rather than guessing.  Generated files
are only rewritten when their content changes (so make's timestamps stay put).
"""
import json
import os
import re
import sys

REPO = os.environ.get("KOTO_REPO", "/repo")


class GenError(Exception):
    pass


def read(rel):
    with open(os.path.join(REPO, rel), encoding="utf-8") as f:
        return f.read()


def write_if_changed(path, content):
    os.makedirs(os.path.dirname(path), exist_ok=True)
    try:
        with open(path, encoding="utf-8") as f:
            if f.read() == content:
                return False
    except FileNotFoundError:
        pass
    with open(path, "w", encoding="utf-8") as f:
        f.write(content)
    return True


def matching_brace(text, open_idx):
    """index of the brace matching text[open_idx] == '{' (ignores braces in
    string/char literals and comments well enough for the regions we read)"""
    depth = 0
    i = open_idx
    n = len(text)
    while i < n:
        c = text[i]
        if c == '/' and text.startswith('//', i):
            i = text.index('\n', i)
            continue
        if c == '"':
            i += 1
            while text[i] != '"':
                if text[i] == '\\':
                    i += 1
                i += 1
        elif c == "'":
            # char literal: 'x', '\x', '\u{..}' ; lifetimes ('a) have no closing quote nearby
            m = re.match(r"'(\\u\{[0-9a-fA-F]+\}|\\.|[^\\'])'", text[i:])
            if m:
                i += m.end() - 1
        elif c == '{':
            depth += 1
        elif c == '}':
            depth -= 1
            if depth == 0:
                return i
        i += 1
    raise GenError("unbalanced braces")


def region(text, header_re, what):
    m = re.search(header_re, text)
    if not m:
        raise GenError(f"cannot find {what}")
    o = text.index('{', m.end() - 1)
    c = matching_brace(text, o)
    return text[o + 1:c]


def rust_str_to_cps(s):
    """decode the contents of a Rust string literal (simple escapes only)"""
    out = []
    i = 0
    while i < len(s):
        c = s[i]
        if c == '\\':
            i += 1
            e = s[i]
            table = {'n': 10, 'r': 13, 't': 9, '\\': 92, '"': 34, "'": 39, '0': 0}
            if e in table:
                out.append(table[e])
            else:
                raise GenError(f"unsupported escape \\{e}")
        else:
            out.append(ord(c))
        i += 1
    return out


def coq_cps(cps):
    return "[" + "; ".join(str(c) for c in cps) + "]"


# --------------------------------------------------------------------------
# lexer tables


def gen_lex(out_v, out_json):
    src = read("crates/lexer/src/lexer.rs")
    body = region(src, r"pub enum Token\s*\{", "enum Token")
    body = re.sub(r"//[^\n]*", "", body)
    variants = []
    for item in body.split(','):
        item = item.strip()
        if not item:
            continue
        m = re.fullmatch(r"([A-Za-z_][A-Za-z0-9_]*)(\(\s*StringType\s*\))?", item)
        if not m:
            raise GenError(f"unexpected Token variant syntax: {item!r}")
        variants.append(m.group(1))
    if len(set(variants)) != len(variants):
        raise GenError("duplicate Token variants")
    for needed in ["Error", "Whitespace", "NewLine", "CommentSingle", "CommentMulti", "Number", "Id",
                   "StringStart", "StringEnd", "StringLiteral", "Else", "ElseIf", "Underscore",
                   "CurlyOpen", "CurlyClose", "Colon", "Dot"]:
        if needed not in variants:
            raise GenError(f"Token::{needed} missing")
    idx = {v: i for i, v in enumerate(variants)}

    fn = region(src, r"fn consume_id_or_keyword\s*\(", "consume_id_or_keyword")
    kws = re.findall(r'check_keyword!\(\s*"((?:[^"\\]|\\.)*)"\s*,\s*([A-Za-z_0-9]+)\s*\)', fn)
    if len(kws) < 10:
        raise GenError("keyword list not found")
    # the guard: keywords are skipped after a Dot
    if not re.search(r"if\s*!matches!\(\s*self\.previous_token\s*,\s*Some\(Token::Dot\)\s*\)", fn):
        raise GenError("keyword guard (previous token is Dot) has changed shape")
    fn = region(src, r"fn consume_symbol\s*\(", "consume_symbol")
    syms = re.findall(r'check_symbol!\(\s*"((?:[^"\\]|\\.)*)"\s*,\s*([A-Za-z_0-9]+)\s*\)', fn)
    if len(syms) < 10:
        raise GenError("symbol list not found")
    for _, t in kws + syms:
        if t not in idx:
            raise GenError(f"token {t} used in a table is not a Token variant")

    ws = region(src, r"\nfn is_whitespace\s*\(", "is_whitespace")
    m = re.search(r"matches!\(\s*c\s*,([^)]*)\)", ws)
    if not m:
        raise GenError("is_whitespace has changed shape")
    ws_chars = []
    for lit in m.group(1).split('|'):
        lit = lit.strip()
        mm = re.fullmatch(r"'((?:\\.|[^\\']))'", lit)
        if not mm:
            raise GenError(f"is_whitespace: unexpected pattern {lit!r}")
        ws_chars += rust_str_to_cps(mm.group(1))

    lines = ["(* GENERATED by tools/k2v.py from crates/lexer/src/lexer.rs -- do not edit *)",
             "From Coq Require Import List NArith.", "Import ListNotations.", "Open Scope N_scope.", ""]
    for v, i in idx.items():
        lines.append(f"Definition tok_{v} : N := {i}.")
    lines.append("")
    lines.append("Definition keywords : list (list N * N) :=")
    lines.append("  [ " + ";\n    ".join(f"({coq_cps(rust_str_to_cps(s))}, tok_{t})" for s, t in kws) + " ].")
    lines.append("")
    lines.append("Definition symbols : list (list N * N) :=")
    lines.append("  [ " + ";\n    ".join(f"({coq_cps(rust_str_to_cps(s))}, tok_{t})" for s, t in syms) + " ].")
    lines.append("")
    lines.append(f"Definition whitespace_chars : list N := {coq_cps(ws_chars)}.")
    lines.append("")
    changed = write_if_changed(out_v, "\n".join(lines) + "\n")
    info = {"variants": variants, "keywords": kws, "symbols": syms, "whitespace": ws_chars}
    if out_json:
        write_if_changed(out_json, json.dumps(info, indent=1))
    return info, changed


GENERATORS = {"lex": gen_lex}
DEFAULT_OUTPUTS = {"lex": ("coq/lex/GenLexTables.v", "build/gen/lex.json")}

if __name__ == "__main__":
    which = sys.argv[1]
    try:
        info, changed = GENERATORS[which](*sys.argv[2:])
        print(f"k2v {which}: ok ({'rewritten' if changed else 'unchanged'})")
    except GenError as e:
        print(f"k2v {which}: GEN-ERROR {e}")
        sys.exit(2)
