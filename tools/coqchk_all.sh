#!/bin/bash
# coqchk -o on every unit's Props files (independent re-check + axiom list)
cd /verif/coq
run() {
  u=$1
  cd /verif/coq/$u
  qs=$(grep '^-Q' _CoqProject | tr '\n' ' ')
  mods=$(ls *Props.v 2>/dev/null | sed "s/\.v$//" | sed "s/^/KV.$u./" | tr '\n' ' ')
  ( time timeout 3000 coqchk -o -silent $qs $mods ) > /verif/build/coqchk_$u.log 2>&1
  echo "$u rc=$? mods=$mods" >> /verif/build/coqchk_summary.log
}
export -f run
rm -f /verif/build/coqchk_summary.log
ls -d */ | tr -d / | xargs -P 16 -I{} bash -c 'run {}'
